#!/usr/bin/env python3
"""Runs the registered checks against the independently written breaking changes kept under /verif/seeded/<id>/.

  tools/run_seeded.py [<id-or-property> ...] [--tier quick|thorough] [--scale S] [--in-repo]

For each seeded change whose confirm.json says confirmed=true the patch is applied to a copy of /repo/asmjit under
/var/tmp/verif-seeded/<id> (or, with --in-repo, to /repo itself with `git -C /repo apply`, undone afterwards with
`git -C /repo checkout -- .`), `./check <property> <tier>` is run with VERIF_REPO pointing at it, and the verdict
(caught = exit 1 with a VIOLATION line, the violation classes, seconds) is written to seeded/<id>/check_result.json.
Evidence and replay files of these runs go to the scratch directory, never to /verif/evidence.
"""
import json, os, shutil, subprocess, sys, time

VERIF = os.path.dirname(os.path.dirname(os.path.abspath(__file__)))
REPO = "/repo"
SCRATCH = "/var/tmp/verif-seeded"

def main():
    argv = sys.argv[1:]
    def opt(name, default):
        if name in argv:
            i = argv.index(name); v = argv[i + 1]; del argv[i:i + 2]; return v
        return default
    tier = opt("--tier", "quick"); scale = opt("--scale", "1")
    in_repo = "--in-repo" in argv
    sel = [a for a in argv if not a.startswith("--")]
    ids = sorted(os.listdir(os.path.join(VERIF, "seeded")))
    caught = total = 0
    for sid in ids:
        sd = os.path.join(VERIF, "seeded", sid)
        cj = os.path.join(sd, "confirm.json")
        if not os.path.exists(cj): continue
        conf = json.load(open(cj))
        if not conf.get("confirmed"): continue
        prop = conf["property"]
        if sel and sid not in sel and prop not in sel: continue
        patch = os.path.join(sd, "patch.diff")
        d = os.path.join(SCRATCH, sid)
        shutil.rmtree(d, ignore_errors=True); os.makedirs(d)
        if in_repo:
            subprocess.check_call(["git", "-C", REPO, "apply", patch]); src = REPO
        else:
            shutil.copytree(os.path.join(REPO, "asmjit"), os.path.join(d, "asmjit"))
            if subprocess.call(["patch", "-s", "-p1", "-d", d, "-i", patch], stdout=subprocess.DEVNULL) != 0:
                # the code this change modifies has changed since (e.g. rewritten by the repair of a genuine defect)
                print("%-48s [%s] patch does not apply to the current tree (see meta.json)" % (sid, prop))
                shutil.rmtree(d, ignore_errors=True)
                continue
            src = d
        env = dict(os.environ, VERIF_REPO=src, VERIF_DIR=os.path.join(d, "verifdir"), VERIF_EVIDENCE_DIR=os.path.join(d, "evidence"))
        os.makedirs(env["VERIF_DIR"], exist_ok=True)
        t0 = time.time()
        try:
            p = subprocess.run([os.path.join(VERIF, "check"), prop, tier, "--scale", scale], env=env, stdout=subprocess.PIPE, stderr=subprocess.STDOUT)
        finally:
            if in_repo: subprocess.check_call(["git", "-C", REPO, "checkout", "--", "."])
        secs = time.time() - t0
        out = p.stdout.decode("utf-8", errors="replace")
        classes = sorted(set(l[len("[check] violation "):] for l in out.splitlines() if l.startswith("[check] violation class=")))
        verdict = "caught" if p.returncode == 1 and "VIOLATION property=" + prop in out else ("harness-error" if p.returncode not in (0, 1) else "missed")
        total += 1; caught += verdict == "caught"
        print("%-48s [%s %s x%s] %-7s %6.1fs %s" % (sid, prop, tier, scale, verdict, secs, " ".join(classes[:3])))
        if verdict != "caught": print("\n".join(out.splitlines()[-8:]))
        json.dump(dict(id=sid, property=prop, command="./check %s %s --scale %s" % (prop, tier, scale), applied_to=("/repo (git apply, reverted)" if in_repo else "copy of /repo/asmjit via VERIF_REPO"),
                       verdict=verdict, exit_code=p.returncode, violation_classes=classes, seconds=round(secs, 1)), open(os.path.join(sd, "check_result.json"), "w"), indent=1)
        shutil.rmtree(d, ignore_errors=True)
    print("caught %d / %d" % (caught, total))

if __name__ == "__main__":
    main()
