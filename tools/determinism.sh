#!/bin/bash
# Determinism gate: for every claimed property run the same seeds with 4, 8 and 16 workers (and twice with 16) and
# require identical event-log hashes per run index. Usage: tools/determinism.sh [scale] [properties...]
set -u
cd "$(dirname "$0")/.."
SCALE=${1:-0.02}; shift || true
PROPS=${*:-C04 C09 C11 C14 C15 C16 C18 C19}
TMP=$(mktemp -d /var/tmp/verif-det.XXXXXX)
rc=0
for p in $PROPS; do
  for fl in asan tsan plain; do
    exe=$(python3 tools/build.py $fl 2>/dev/null | tail -1)
    "$exe" list | grep -q "^$p .*flavour=$fl" || continue
    for cfg in 4 8 16 16b; do
      w=${cfg%b}
      VERIF_DIR=$TMP "$exe" check $p quick --scale $SCALE --workers $w --dump-hashes $TMP/$p-$fl-$cfg.txt --part $TMP/part.json >/dev/null 2>$TMP/err.txt || { echo "$p/$fl workers=$cfg: check exited non-zero"; tail -3 $TMP/err.txt; rc=1; }
    done
    n=$(wc -l < $TMP/$p-$fl-16.txt)
    for cfg in 4 8 16b; do
      if ! cmp -s $TMP/$p-$fl-16.txt $TMP/$p-$fl-$cfg.txt; then echo "$p/$fl: hashes differ between 16 workers and $cfg"; diff $TMP/$p-$fl-16.txt $TMP/$p-$fl-$cfg.txt | head -4; rc=1; fi
    done
    echo "$p/$fl: $n runs x 4 executions (4, 8, 16, 16 workers): hashes identical = $([ $rc = 0 ] && echo yes || echo NO)"
  done
done
rm -rf "$TMP"
exit $rc
