#!/bin/bash
# Confirms an independently written breaking change in its scratch worktree and stores it under /verif/seeded/<id>/.
#   tools/confirm_seeded.sh <worktree> <N> <seeded-id> <property> [demo-link-mode]
# Steps: patch applies to a clean checkout; library + tests rebuild; all ctest tests pass WITH the change; the
# demonstration fails with the change and passes without it. demo-link-mode: "shared" (default, links libasmjit.so of the
# worktree's _build) or "custom" (runs <worktree>/out/run_demoN.sh <changed|clean>, exit status = demo result).
set -u
WT=$1; N=$2; ID=$3; PROP=$4; MODE=${5:-shared}
OUT=/verif/seeded/$ID
mkdir -p "$OUT"
log() { echo "[confirm $ID] $*"; }
git -C "$WT" checkout -q -- asmjit
git -C "$WT" apply --check "$WT/out/change$N.diff" || { log "patch does not apply"; exit 1; }
demo() {  # $1 = changed|clean ; returns the demo's exit status
  if [ "$MODE" = custom ]; then bash "$WT/out/run_demo$N.sh" "$1" > "$OUT/demo_$1.log" 2>&1; return $?; fi
  ( cd "$WT/out" && c++ -std=c++17 -O1 -I"$WT" demo$N.cpp -L"$WT/_build" -lasmjit -Wl,-rpath,"$WT/_build" -lpthread -lrt -o demo$N.bin ) > "$OUT/demo_build_$1.log" 2>&1 || return 99
  timeout 600 "$WT/out/demo$N.bin" > "$OUT/demo_$1.log" 2>&1
}
# --- unchanged tree
cmake --build "$WT/_build" -j8 > "$OUT/build_clean.log" 2>&1 || { log "clean build failed"; exit 1; }
demo clean; clean_rc=$?
# --- with the change
git -C "$WT" apply "$WT/out/change$N.diff"
cmake --build "$WT/_build" -j8 > "$OUT/build_changed.log" 2>&1; build_rc=$?
ctest --test-dir "$WT/_build" -j4 --timeout 900 > "$OUT/ctest_changed.log" 2>&1; ctest_rc=$?
passed=$(grep -c "Passed" "$OUT/ctest_changed.log")
demo changed; changed_rc=$?
git -C "$WT" checkout -q -- asmjit
cmake --build "$WT/_build" -j8 >> "$OUT/build_clean.log" 2>&1
cp "$WT/out/change$N.diff" "$OUT/patch.diff"
cp "$WT/out/demo$N.cpp" "$OUT/demo.cpp"
cp "$WT/out/notes$N.md" "$OUT/notes.md" 2>/dev/null
[ -f "$WT/out/run_demo$N.sh" ] && cp "$WT/out/run_demo$N.sh" "$OUT/run_demo.sh"
ok=false
if [ $build_rc = 0 ] && [ $ctest_rc = 0 ] && [ "$passed" = 10 ] && [ $clean_rc = 0 ] && [ $changed_rc != 0 ] && [ $changed_rc != 99 ]; then ok=true; fi
cat > "$OUT/confirm.json" <<EOF
{"id": "$ID", "property": "$PROP", "patch_applies": true, "build_with_change_rc": $build_rc, "ctest_with_change_rc": $ctest_rc, "ctest_tests_passed": $passed,
 "demo_exit_unchanged": $clean_rc, "demo_exit_with_change": $changed_rc, "confirmed": $ok}
EOF
log "build=$build_rc ctest=$ctest_rc passed=$passed demo(clean)=$clean_rc demo(changed)=$changed_rc confirmed=$ok"
rm -f "$OUT"/build_*.log "$OUT"/demo_build_*.log
$ok
