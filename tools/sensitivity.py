#!/usr/bin/env python3
"""Sensitivity catalogue: small source changes that break a property while still compiling; each is applied to a scratch
copy of /repo/asmjit (under /var/tmp, removed afterwards), the quick check of the property it should break is run with
VERIF_REPO pointing at the copy, and the result (caught / missed, time) is recorded in sensitivity_results.json.

Usage: tools/sensitivity.py [mutant-id ...] [--scale S] [--keep]
Evidence and replay files of these runs go to a scratch directory, never to /verif/evidence.
"""
import json, os, shutil, subprocess, sys, time

VERIF = os.path.dirname(os.path.dirname(os.path.abspath(__file__)))
REPO = os.environ.get("VERIF_REPO_SRC", "/repo")
SCRATCH = "/var/tmp/verif-sens"

M = []
def mutant(mid, prop, path, old, new, what, scale=None, env=None):
    M.append(dict(id=mid, prop=prop, path=path, old=old, new=new, what=what, scale=scale, env=env or {}))

J = "asmjit/core/jitallocator.cpp"
# ---- C09 -----------------------------------------------------------------------------------------------------------
mutant("m09a", "C09", J, "    Support::bit_vector_set_bit(_stop_bit_vector, shrunk_area_start - 1, true);\n", "", "shrink does not move the stop bit to the new end of the span")
mutant("m09b", "C09", J, "      _search_start = Support::min(_search_start, released_area_start);\n      _search_end = Support::max(_search_end, released_area_end);\n      clear_flags(kFlagDirty | kFlagIncremental);",
       "      _search_start = Support::min(_search_start, released_area_start);\n      clear_flags(kFlagDirty | kFlagIncremental);", "search window end not widened on release")
mutant("m09c", "C09", J, "  // Fill the released memory if the secure mode is enabled.\n  if (Support::test(impl->options, JitAllocatorOptions::kFillUnusedMemory)) {",
       "  // Fill the released memory if the secure mode is enabled.\n  if (Support::test(impl->options, JitAllocatorOptions::kFillUnusedMemory) && area_size > 1u) {", "one-granule spans are not re-filled on release")
mutant("m09d", "C09", J, "  out->_rw = block->rw_ptr() + offset;\n  out->_size = size;", "  out->_rw = block->rx_ptr() + offset;\n  out->_size = size;", "rw view computed from the rx base (wrong with dual mapping)")
mutant("m09e", "C09", J, "bool operator<(const uint8_t* key) const noexcept { return rx_ptr() + _block_size <= key; }", "bool operator<(const uint8_t* key) const noexcept { return rx_ptr() + _block_size < key; }", "block lookup accepts the address one past the end of a block")
mutant("m09f", "C09", J, "    else {\n      (void)VirtMem::release(virt_mem.rx, block_size);\n    }\n    return make_error(Error::kOutOfMemory);", "    return make_error(Error::kOutOfMemory);", "mapping leaked when the block header allocation fails")
mutant("m09g", "C09", "asmjit/core/jitallocator.h", "return _impl->block_size != 0; }", "return _impl->block_size == 0; }", "revert fix: is_initialized() inverted")
mutant("m09h", "C09", J, "  impl->tree.reset();\n  impl->allocation_count = 0;\n", "  impl->tree.reset();\n", "revert fix: reset() keeps the allocation count")
mutant("m09i", "C09", J, "      if (area_used() == initial_area_start()) {\n        clear_flags(kFlagDirty);\n        add_flags(kFlagEmpty);\n      }\n", "", "revert fix: incremental release never marks the block empty")
mutant("m09j", "C09", J, "      // If the block was full `_search_end` was zeroed, so make sure the search range covers the released area.\n      _search_end = Support::max(_search_end, released_area_end);\n", "", "revert fix: stale search end after releasing the tail of a full block")
mutant("m09k", "C09", J, "        block_to_keep->_tree_nodes[0] = 0;\n        block_to_keep->_tree_nodes[1] = 0;\n", "", "revert fix: kept block re-inserted with stale tree links")
mutant("m09l", "C09", J, "  if (area_diff) {\n    block->mark_shrunk_area(area_start + area_shrunk_size, area_end);\n    span._size = pool->byte_size_from_area_size(area_shrunk_size);\n  }",
       "  if (area_diff) {\n    block->mark_shrunk_area(area_start + area_shrunk_size, area_end);\n    span._size = new_size;\n  }", "shrink reports the requested instead of the granule-rounded size")
# ---- C11 -----------------------------------------------------------------------------------------------------------
mutant("m11a", "C11", J, "  LockGuard guard(impl->lock);\n#if defined(ASMJIT_VERIF)\n  ASMJIT_VERIF_SHARED(impl, \"query\");", "#if defined(ASMJIT_VERIF)\n  ASMJIT_VERIF_SHARED(impl, \"query\");", "query() without the lock")
mutant("m11b", "C11", J, "    LockGuard guard(impl->lock);\n#if defined(ASMJIT_VERIF)\n    ASMJIT_VERIF_SHARED(impl, \"statistics\");", "#if defined(ASMJIT_VERIF)\n    ASMJIT_VERIF_SHARED(impl, \"statistics\");", "statistics() without the lock")
mutant("m11c", "C11", J, "  LockGuard guard(impl->lock);\n#if defined(ASMJIT_VERIF)\n  ASMJIT_VERIF_SHARED(impl, \"shrink\");", "#if defined(ASMJIT_VERIF)\n  ASMJIT_VERIF_SHARED(impl, \"shrink\");", "shrink without the lock")
mutant("m11d", "C11", J, "  LockGuard guard(impl->lock);\n#if defined(ASMJIT_VERIF)\n  ASMJIT_VERIF_SHARED(impl, \"alloc\");\n#endif\n", "  impl->allocation_count++;\n  LockGuard guard(impl->lock);\n#if defined(ASMJIT_VERIF)\n  ASMJIT_VERIF_SHARED(impl, \"alloc\");\n#endif\n  impl->allocation_count--;\n",
       "allocation counter touched before the lock is taken (no H2 probe at that access)", env={"SIM_C11_NO_H2": "1"})
mutant("m11e", "C11", "asmjit/core/string.cpp", "  char buf[128];\n  char* p = buf + ASMJIT_ARRAY_SIZE(buf);", "  static char buf[128];\n  char* p = buf + ASMJIT_ARRAY_SIZE(buf);", "number formatting through a static scratch buffer (shared between threads that log)")
mutant("m11f", "C11", "asmjit/core/jitruntime.cpp", "  JitAllocator::Span span;\n  ASMJIT_PROPAGATE(_allocator.alloc(Out(span), estimated_code_size));", "  static JitAllocator::Span span;\n  ASMJIT_PROPAGATE(_allocator.alloc(Out(span), estimated_code_size));", "JitRuntime::_add keeps its span in a static")
# ---- C15 -----------------------------------------------------------------------------------------------------------
mutant("m15a", "C15", "asmjit/core/codeholder.cpp", "    emitter->_code = nullptr;\n    return err;\n  }\n\n  // Make sure CodeHolder <-> BaseEmitter are connected.", "    return err;\n  }\n\n  // Make sure CodeHolder <-> BaseEmitter are connected.", "revert fix: failed attach keeps the emitter linked")
mutant("m15b", "C15", "asmjit/core/codeholder.cpp", "  Error err = _label_entries.reserve_additional(_arena);\n\n  if (ASMJIT_UNLIKELY(err != Error::kOk)) {\n    label_id_out = Globals::kInvalidId;\n    return err;\n  }\n  else {",
       "  Error err = _label_entries.reserve_additional(_arena);\n\n  if (ASMJIT_UNLIKELY(err != Error::kOk && _label_entries.capacity() == 0u)) {\n    label_id_out = Globals::kInvalidId;\n    return err;\n  }\n  else {", "new_label_id appends unchecked when growing the label array fails")
mutant("m15c", "C15", "asmjit/core/codewriter_p.h", "      if (ASMJIT_UNLIKELY(err != Error::kOk)) {\n        return a->report_error(err);\n      }\n      _cursor = a->_buffer_ptr;", "      if (ASMJIT_UNLIKELY(err != Error::kOk && n > 64)) {\n        return a->report_error(err);\n      }\n      _cursor = a->_buffer_ptr;", "failed buffer growth ignored for small requests")
mutant("m15d", "C15", "asmjit/core/jitruntime.cpp", "  if (ASMJIT_UNLIKELY(err != Error::kOk)) {\n    _allocator.release(span.rx());\n    return err;\n  }", "  if (ASMJIT_UNLIKELY(err != Error::kOk)) {\n    return err;\n  }", "span not released when relocation fails inside JitRuntime::_add")
mutant("m15e", "C15", "asmjit/core/constpool.cpp", "      if (ASMJIT_LIKELY(node)) {\n        _tree[tree_index].insert(node);\n      }", "      _tree[tree_index].insert(node);", "revert fix: null shared constant node inserted")
mutant("m15f", "C15", "asmjit/core/rastack.cpp", "  if (ASMJIT_UNLIKELY(_slots.reserve_additional(*arena()) != Error::kOk)) {\n    return nullptr;\n  }\n", "  (void)_slots.reserve_additional(*arena());\n", "stack slot appended unchecked after a failed reserve")
mutant("m15g", "C15", "asmjit/core/virtmem.cpp", "      if (i == 1) {\n        unmap_memory(ptr[0], size);\n      }\n      return err;", "      return err;", "dual mapping: first view leaked when mapping the second view fails")
# ---- C16 -----------------------------------------------------------------------------------------------------------
mutant("m16a", "C16", "asmjit/core/compiler.cpp", "  self->_jump_annotations.reset();\n", "", "revert fix: jump annotations survive detach/reinit")
mutant("m16b", "C16", "asmjit/core/codeholder.cpp", "  self->_named_labels.reset();\n", "  if (reset_policy == ResetPolicy::kHard) self->_named_labels.reset();\n", "named-label hash kept across soft reset / reinit")
mutant("m16c", "C16", "asmjit/core/codeholder.cpp", "  self->_address_table_section = nullptr;\n  self->_address_table_entries.reset();", "  self->_address_table_section = nullptr;", "address table entries kept across reset")
mutant("m16d", "C16", "asmjit/core/emitter.cpp", "  ASMJIT_ASSERT(_code == &code);\n  Support::maybe_unused(code);\n\n  _inst_options = InstOptions::kNone;", "  ASMJIT_ASSERT(_code == &code);\n  Support::maybe_unused(code);\n", "one-shot instruction options survive reinit")
mutant("m16e", "C16", "asmjit/core/codeholder.cpp", "  memset(section->_name.str, 0, sizeof(section->_name.str));\n", "", "revert fix: section name not terminated (depends on heap contents)")
mutant("m16f", "C16", "asmjit/core/codeholder.cpp", "  self->_fixups = nullptr;\n  self->_fixup_data_pool.reset();\n  self->_unresolved_fixup_count = 0;", "  self->_fixups = nullptr;\n  self->_fixup_data_pool.reset();", "unresolved fixup count kept across reset")
mutant("m16g", "C16", "asmjit/core/builder.cpp", "  ErrorHandler* prev = has_emitter_flag(EmitterFlags::kOwnErrorHandler) ? error_handler() : nullptr;", "  ErrorHandler* prev = error_handler();", "revert fix: run_passes() makes an inherited error handler the emitter's own")
# ---- C18 -----------------------------------------------------------------------------------------------------------
mutant("m18a", "C18", "asmjit/support/arena.cpp", "    ManagedBlock* block_to_free = next;\n    next = next->next;\n\n    cur_block->next = next;\n    Arena_free(block_to_free);", "    ManagedBlock* block_to_free = next;\n    cur_block->next = next;\n\n    next = next->next;\n    Arena_free(block_to_free);", "revert fix: freed block stays linked after soft reset")
mutant("m18b", "C18", "asmjit/support/arenavector.cpp", "  size_t allocated_capacity = item_count_from_byte_size(allocated_size, item_size);\n", "  size_t allocated_capacity = item_count_from_byte_size(allocated_size, item_size) + 1u;\n", "vector capacity one element larger than its storage")
mutant("m18c", "C18", "asmjit/support/arenahash.cpp", "  for (i = 0; i < old_count; i++) {\n    ArenaHashNode* node = old_data[i];", "  for (i = 1; i < old_count; i++) {\n    ArenaHashNode* node = old_data[i];", "rehash drops the first bucket")
mutant("m18d", "C18", "asmjit/support/arenatree.h", "            p->_make_black();\n            s->_make_red();\n            q->_make_red();", "            p->_make_black();\n            q->_make_red();", "tree removal skips recolouring the sibling")
mutant("m18e", "C18", "asmjit/support/arena.h", "      static_cast<ReusableSlot*>(p)->next = static_cast<ReusableSlot*>(_reusable_slots[slot]);\n      _reusable_slots[slot] = static_cast<ReusableSlot*>(p);",
       "      if (slot == 3u) slot = 4u;\n      static_cast<ReusableSlot*>(p)->next = static_cast<ReusableSlot*>(_reusable_slots[slot]);\n      _reusable_slots[slot] = static_cast<ReusableSlot*>(p);", "128-byte chunks recycled as 256-byte chunks")
mutant("m18f", "C18", "asmjit/support/arenabitset.cpp", "    data[idx++] |= pattern << start_bit;", "    data[idx++] |= pattern << (start_bit + 1u);", "bit set resize fills from one bit too far")
mutant("m18g", "C18", "asmjit/core/string.cpp", "    fmt_result = vsnprintf(data() + start_at, remaining_capacity + 1u, fmt, ap);", "    fmt_result = vsnprintf(data() + start_at, remaining_capacity, fmt, ap);", "revert fix: format drops the last character at exact capacity")
# ---- C19 -----------------------------------------------------------------------------------------------------------
mutant("m19a", "C19", "asmjit/core/constpool.cpp", "    if (size >= 32 && Support::is_aligned<size_t>(offset, 32)) {", "    if (size >= 32 && Support::is_aligned<size_t>(offset, 16)) {", "32-byte gaps registered at 16-byte aligned offsets")
mutant("m19b", "C19", "asmjit/core/constpool.cpp", "offset + (i * smaller_size), true);", "offset + ((i ^ (smaller_size == 4u)) * smaller_size), true);", "shared 4-byte sub-constants registered at the neighbouring offset")
mutant("m19c", "C19", "asmjit/core/constpool.cpp", "  memset(dst, 0, _size);\n", "  if (_size < 64) memset(dst, 0, _size);\n", "gaps of larger pools are not zeroed")
mutant("m19d", "C19", "asmjit/core/constpool.cpp", "    size_t diff = Support::align_up_diff<size_t>(_size, size);", "    size_t diff = Support::align_up_diff<size_t>(_size, size > 32 ? 32 : size);", "64-byte constants only 32-byte aligned")
# ---- C14 -----------------------------------------------------------------------------------------------------------
mutant("m19e", "C19", "asmjit/core/constpool.cpp", "  node->_offset = uint32_t(offset);\n  _tree[tree_index].insert(node);", "  node->_offset = uint32_t(offset);\n  if (size == 2 && _size > 64) { _size += 2; return make_error(Error::kOutOfMemory); }\n  _tree[tree_index].insert(node);", "add() of a 2-byte constant fails late (after the pool grew) once the pool is larger than 64 bytes")
mutant("m14a", "C14", "asmjit/x86/x86assembler.cpp", "          if (ASMJIT_UNLIKELY(!_code->is_label_valid(base_label_id))) {\n            goto InvalidLabel;\n          }\n\n          label = &_code->label_entry_of(base_label_id);\n          err = _code->new_reloc_entry",
       "          if (ASMJIT_UNLIKELY(!_code->is_label_valid(base_label_id))) {\n          }\n\n          label = &_code->label_entry_of(base_label_id);\n          err = _code->new_reloc_entry", "revert fix: x86-32 [label] path does not reject invalid label ids")
mutant("m14b", "C14", "asmjit/core/emitterutils.cpp", "  self->reset_state();\n  return self->report_error(err, sb.data());", "  Error reported = self->report_error(err, sb.data());\n  self->reset_state();\n  return reported;", "one-shot state reset only after the error handler returned (a throwing handler skips it)")
mutant("m14c", "C14", "asmjit/core/builder.cpp", "  if (ASMJIT_UNLIKELY(node->is_active())) {\n    return report_error(make_error(Error::kLabelAlreadyBound));\n  }\n\n  add_node(node);\n  return Error::kOk;", "  add_node(node);\n  return Error::kOk;", "revert fix: builder binds a label twice")
mutant("m14d", "C14", "asmjit/core/assembler.cpp", "  if (ASMJIT_UNLIKELY(!Support::is_power_of_2_up_to(data_size, 8u))) {\n    return report_error(make_error(Error::kInvalidOperandSize));\n  }\n\n  CodeWriter writer(this);\n  ASMJIT_PROPAGATE(writer.ensure_space(this, data_size));\n\n#ifndef ASMJIT_NO_LOGGING\n  if (_logger) {\n    StringTmp<256> sb;\n    sb.append('.');\n    Formatter::format_data_type(sb, _logger->flags(), arch(), data_type_id_by_size_table[data_size]);\n    sb.append(' ');",
       "  if (ASMJIT_UNLIKELY(!Support::is_power_of_2_up_to(data_size, 16u))) {\n    return report_error(make_error(Error::kInvalidOperandSize));\n  }\n\n  CodeWriter writer(this);\n  ASMJIT_PROPAGATE(writer.ensure_space(this, data_size));\n\n#ifndef ASMJIT_NO_LOGGING\n  if (_logger) {\n    StringTmp<256> sb;\n    sb.append('.');\n    Formatter::format_data_type(sb, _logger->flags(), arch(), data_type_id_by_size_table[data_size]);\n    sb.append(' ');", "embed_label accepts a 16-byte size")
mutant("m14e", "C14", "asmjit/core/assembler.cpp", "  Error err = _code->new_reloc_entry(Out(re), RelocType::kRelToAbs);\n  if (ASMJIT_UNLIKELY(err != Error::kOk)) {\n    return report_error(err);\n  }\n\n  re->_source_section_id = _section->section_id();",
       "  Error err = _code->new_reloc_entry(Out(re), RelocType::kRelToAbs);\n  if (ASMJIT_UNLIKELY(err != Error::kOk)) {\n    return report_error(err);\n  }\n\n  if (ASMJIT_UNLIKELY(le.is_bound() && le.section_id() != _section->section_id() && data_size == 2u)) {\n    return report_error(make_error(Error::kInvalidOperandSize));\n  }\n\n  re->_source_section_id = _section->section_id();", "embed_label fails after it created its relocation entry (for one rare combination)")
mutant("m14f", "C14", "asmjit/arm/a64assembler.cpp", "        // Offset is encoded as 7-bit immediate.\n        if (!Support::is_int_n<7>(offset32))", "        // Offset is encoded as 7-bit immediate.\n        if (!Support::is_int_n<8>(offset32))", "a64 ldp/stp accept an 8-bit scaled offset (encoded modulo 128)")
mutant("m14g", "C14", "asmjit/arm/a64assembler.cpp", "        if (imm16 > 0xFFFFu || shiftValue > 48 || shift_type != uint32_t(ShiftOp::kLSL))", "        if (imm16 > 0xFFFFu || shiftValue > 64 || shift_type != uint32_t(ShiftOp::kLSL))", "a64 movz/movk/movn accept lsl #64")
# ---- C04 -----------------------------------------------------------------------------------------------------------
mutant("m04a", "C04", "asmjit/core/codeholder.cpp", "        value -= source_address + region_size;", "        value -= source_address;", "kAbsToRel forgets the size of the relocated region")
mutant("m04b", "C04", "asmjit/core/codeholder.cpp", "          size_t at_entry_index = size_t(at_entry->slot()) * address_size;", "          size_t at_entry_index = size_t(at_entry->slot()) * 4u;", "address table slot index scaled by 4 instead of the address size")
mutant("m04c", "C04", "asmjit/core/codeholder.cpp", "          if (byte1 == 0xE8) {\n            // Patch CALL/MOD byte to FF /2 (-> 0x15).\n            byte1 = x86_encode_mod(0, 2, 5);\n          }\n          else if (byte1 == 0xE9) {\n            // Patch JMP/MOD byte to FF /4 (-> 0x25).\n            byte1 = x86_encode_mod(0, 4, 5);\n          }",
       "          if (byte1 == 0xE8) {\n            // Patch CALL/MOD byte to FF /2 (-> 0x15).\n            byte1 = x86_encode_mod(0, 2, 5);\n          }\n          else if (byte1 == 0xE9) {\n            // Patch JMP/MOD byte to FF /4 (-> 0x25).\n            byte1 = x86_encode_mod(0, 2, 5);\n          }", "far jmp rewritten to a call through the address table")
mutant("m04d", "C04", "asmjit/core/codeholder.cpp", "    // The entries written to the address table are its content regardless of where the section is.\n    address_table_section->_buffer._size = address_table_size;\n", "    if (_sections_by_order.last() == address_table_section) address_table_section->_buffer._size = address_table_size;\n", "revert fix: address table empty when it is not the last section")
mutant("m04e", "C04", "asmjit/core/codeholder.cpp", "        value += base_address + target_section->offset();", "        value += base_address + (target_section->section_id() ? target_section->offset() : 0u) + target_section->offset();", "kRelToAbs adds the section offset twice for sections other than .text... (only visible with a data section)")
mutant("m04f", "C04", "asmjit/core/codeholder.cpp", "          source_address &= ~uint64_t(4096 - 1);\n", "", "revert fix: adrp relocated relative to the instruction instead of its page")
# ---- reverted repairs of round 7 ------------------------------------------------------------------------------------
mutant("m09m", "C09", J, "    if (size != 0) {\n      return JitAllocatorImpl_shrink(static_cast<JitAllocatorPrivateImpl*>(_impl), span, size, true);\n    }\n", "    return JitAllocatorImpl_shrink(static_cast<JitAllocatorPrivateImpl*>(_impl), span, size, true);\n", "revert fix: write(fn) that shrinks to zero runs the internal shrink with size 0")
mutant("m14h", "C14", "asmjit/x86/x86assembler.cpp", "    if (ASMJIT_UNLIKELY(!_code)) {\n      reset_state();\n      return report_error(make_error(Error::kNotInitialized));", "    if (ASMJIT_UNLIKELY(!_code)) {\n      return report_error(make_error(Error::kNotInitialized));", "revert fix: emit on a detached x86 Assembler keeps the one-shot state")
mutant("m14i", "C14", "asmjit/core/emitter.cpp", "      reset_state();\n      return report_error(make_error(Error::kInvalidArgument));", "      return make_error(Error::kInvalidArgument);", "revert fix: emit_op_array with more than six operands bypasses the handler and keeps the one-shot state")
mutant("m18h", "C18", "asmjit/support/arenavector.h", "    ASMJIT_PROPAGATE(reserve_additional(arena));\n\n    memcpy(static_cast<void*>(static_cast<T*>(_data) + _size),\n           static_cast<const void*>(item_copy),", "    ASMJIT_PROPAGATE(reserve_additional(arena));\n\n    memcpy(static_cast<void*>(static_cast<T*>(_data) + _size),\n           static_cast<const void*>(&item),", "revert fix: append() reads its argument after the storage was reallocated")
mutant("m19f", "C19", "asmjit/core/compiler.cpp", "    if (local_const_pool) {\n      compiler.add_after(local_const_pool, compiler.last_node());", "    if (local_const_pool && false) {\n      compiler.add_after(local_const_pool, compiler.last_node());", "revert fix: a local constant pool pending at finalize() is not emitted")
# ---- reverted repairs of round 8 ------------------------------------------------------------------------------------
mutant("m14j", "C14", "asmjit/arm/a64assembler.cpp", "        if (op_data.n != 1 && q == 0 && sz == 3)\n          goto InvalidInstruction;\n", "", "revert fix: ld2/ld3/ld4/st2/st3/st4 accept the reserved .1d arrangement")
mutant("m14k", "C14", "asmjit/arm/a64assembler.cpp", "        if (m.index_type() != RegType::kGp64)\n          goto InvalidAddress;\n", "", "revert fix: structure loads/stores accept a W post-index register")
mutant("m14l", "C14", "asmjit/arm/a64assembler.cpp", "        uint64_t cond = o2.as<Imm>().value_as<uint64_t>();\n        if (cond - 2u >= 0xEu)", "        uint64_t cond = o2.as<Imm>().value_as<uint64_t>();\n        if (cond - 2u > 0xEu)", "revert fix: cinc/cinv/cneg accept condition code 16")
mutant("m14m", "C14", "asmjit/x86/x86instapi.cpp", "if (ASMJIT_UNLIKELY(base_id >= 32 || !Support::bit_test(vd->allowed_reg_mask[size_t(base_type)], base_id))) {", "if (ASMJIT_UNLIKELY(base_id >= 32)) {", "revert fix: x86 validator accepts a memory base register id outside the register file")
mutant("m14n", "C14", "asmjit/x86/x86instapi.cpp", "            if (mode == InstDB::Mode::kX86) {\n              // 32-bit mode: Make sure that the address is either `int32_t` or `uint32_t`.\n              if (!Support::is_uint_n<32>(offset)) {", "            if (mode == InstDB::Mode::kX86) {\n              // 32-bit mode: Make sure that the address is either `int32_t` or `uint32_t`.\n              if (!Support::is_uint_n<32>(offset) && index_type != RegType::kNone) {", "x86-32 validator accepts a 64-bit absolute address without index")
mutant("m16h", "C16", "asmjit/core/rapass.cpp", "  for (BaseNode* node = func; node && node != _stop; node = node->next()) {\n    node->reset_pass_data();\n  }\n\n  // A label that is not bound inside of this function (a branch target outside of it) got a block as well.\n  for (LabelNode* label_node : cc()._label_nodes) {\n    if (label_node) {\n      label_node->reset_pass_data();\n    }\n  }\n", "", "revert fix: label nodes keep the register allocator's block after the function is done")
mutant("m16i", "C16", "asmjit/core/builder.cpp", "  (*out)->reset_op_range(0, op_capacity);\n", "", "revert fix: new_inst_node() leaves the operands uninitialized")
mutant("m18i", "C18", "asmjit/support/arena.cpp", "  size = Support::min<size_t>(size_t(result), ASMJIT_ARRAY_SIZE(buf) - 2);", "  size = size_t(result);", "revert fix: sformat() uses the untruncated length")
mutant("m09n", "C09", J, "         !Support::bit_vector_get_bit(block->_stop_bit_vector, area_start - 1u)) {\n    area_start--;\n  }", "         !Support::bit_vector_get_bit(block->_stop_bit_vector, area_start - 1u)) {\n    break;\n  }", "revert fix: query() of an interior pointer returns a partial span")
mutant("m14o", "C14", "asmjit/arm/a64assembler.cpp", "        if (lsb >= op_size || width == 0 || width > op_size - lsb)\n          goto InvalidImmediate;\n\n        uint32_t lsb32 = Support::neg(uint32_t(lsb)) & (op_size - 1);", "        if (lsb >= op_size || width == 0 || width > op_size)\n          goto InvalidImmediate;\n\n        uint32_t lsb32 = Support::neg(uint32_t(lsb)) & (op_size - 1);", "revert fix: bfc accepts lsb + width beyond the register")
mutant("m14p", "C14", "asmjit/arm/a64assembler.cpp", "        if (shift_type == uint32_t(ShiftOp::kROR) && inst_id != Inst::kIdMvn)\n          goto InvalidImmediate;\n", "", "revert fix: neg/negs accept ror")
mutant("m14q", "C14", "asmjit/core/assembler.cpp", "    if (ASMJIT_UNLIKELY(delta < -(limit >> 1) || delta >= limit)) {", "    if (ASMJIT_UNLIKELY(delta < -(limit >> 1) - limit || delta >= 2 * limit)) {", "embed_label_delta accepts distances up to twice the field range (truncated)")
mutant("m16j", "C16", "asmjit/core/builder.cpp", "  dst->reset_inline_comment();\n\n  return err;", "  return err;", "revert fix: serialize_to() leaves the last node's inline comment on the destination")
mutant("m18j", "C18", "asmjit/core/string.cpp", "  if (self_offset != SIZE_MAX) {\n    str = data() + self_offset;\n  }\n", "", "revert fix: a string appended to itself is read from the released buffer")
mutant("m04g", "C04", "asmjit/core/codeholder.cpp", "      err = make_error(Error::kInvalidDisplacement);\n    }\n\n    it.next();", "    }\n\n    it.next();", "revert fix: an unencodable cross-section displacement is not reported")
mutant("m14r", "C14", "asmjit/core/builder.cpp", "  Error err = label_node_of(Out(node), label);\n\n  if (ASMJIT_UNLIKELY(err != Error::kOk)) {\n    return report_error(err);\n  }\n", "  ASMJIT_PROPAGATE(label_node_of(Out(node), label));\n", "revert fix: Builder::bind() of an invalid label bypasses the error handler")

# ---- round 12 (oracles / workload added after independently written changes were missed) -------------------------
mutant("m09s", "C09", J, "      _largest_unused_area += shrunk_area_size;\n\n      // If the block was full `_search_end` was zeroed, so make sure the search range covers the released area.\n      _search_end = Support::max(_search_end, shrunk_area_end);\n",
       "      _largest_unused_area += shrunk_area_size;\n", "shrinking the last span of a full incremental block leaves the search window closed (tail never found again)")
mutant("m04h", "C04", "asmjit/core/emitterutils_p.h", "return base_address != Globals::kNoBaseAddress && section_offset != Globals::kNoSectionOffset;", "(void)section_offset; return base_address != Globals::kNoBaseAddress;",
       "a location counts as absolute as soon as the base is known, even in a section whose offset is not assigned yet")
mutant("m14s", "C14", "asmjit/core/assembler.cpp", "  reset_inline_comment();\n  if (err != Error::kOk) {\n    return report_error(err);\n  }\n\n  return Error::kOk;\n}\n\n// BaseAssembler - Embed",
       "  if (err != Error::kOk) {\n    return report_error(err);\n  }\n  reset_inline_comment();\n\n  return Error::kOk;\n}\n\n// BaseAssembler - Embed", "a refused Assembler::bind() keeps the pending inline comment")

def run(cmd, env=None, timeout=3600):
    e = dict(os.environ); e.update(env or {})
    t0 = time.time()
    r = subprocess.run(cmd, stdout=subprocess.PIPE, stderr=subprocess.STDOUT, text=True, errors='replace', env=e, timeout=timeout)
    return r.returncode, r.stdout, time.time() - t0

def main():
    args = [a for a in sys.argv[1:] if not a.startswith("--")]
    scale = "0.5"
    if "--scale" in sys.argv: scale = sys.argv[sys.argv.index("--scale") + 1]; args = [a for a in args if a != scale]
    keep = "--keep" in sys.argv
    todo = [m for m in M if not args or m["id"] in args or m["prop"] in args]
    results_path = os.path.join(VERIF, "sensitivity_results.json")
    results = json.load(open(results_path)) if os.path.exists(results_path) else {}
    for m in todo:
        d = os.path.join(SCRATCH, m["id"])
        shutil.rmtree(d, ignore_errors=True)
        os.makedirs(d)
        shutil.copytree(os.path.join(REPO, "asmjit"), os.path.join(d, "asmjit"))
        p = os.path.join(d, m["path"])
        s = open(p).read()
        if s.count(m["old"]) != 1:
            print("%s: SKIPPED - pattern found %d times in %s" % (m["id"], s.count(m["old"]), m["path"])); results[m["id"]] = dict(m, old=None, new=None, result="pattern-not-found"); shutil.rmtree(d, ignore_errors=True); continue
        open(p, "w").write(s.replace(m["old"], m["new"]))
        env = {"VERIF_REPO": d, "VERIF_DIR": os.path.join(d, "verifdir"), "VERIF_EVIDENCE_DIR": os.path.join(d, "evidence")}
        env.update(m["env"])
        os.makedirs(env["VERIF_DIR"], exist_ok=True)
        rc, out, secs = run([os.path.join(VERIF, "check"), m["prop"], "quick", "--scale", str(m["scale"] or scale)], env)
        cls = [l for l in out.splitlines() if l.startswith("[check] violation class=")]
        verdict = "caught" if rc == 1 else ("harness-error" if rc == 2 else "missed")
        print("%s [%s] %-7s %5.1fs  %s%s" % (m["id"], m["prop"], verdict, secs, m["what"], ("  -> " + cls[0][len("[check] violation "):]) if cls else ""))
        if verdict != "caught": print("\n".join(out.splitlines()[-6:]))
        results[m["id"]] = dict(id=m["id"], prop=m["prop"], file=m["path"], what=m["what"], result=verdict, seconds=round(secs, 1), classes=[c[len("[check] violation "):] for c in cls], scale=m["scale"] or scale)
        json.dump(results, open(results_path, "w"), indent=1)
        if not keep:
            shutil.rmtree(d, ignore_errors=True)
            # the build directories of the mutant are keyed by content hash; drop the oldest ones
    print("caught %d / %d" % (sum(1 for m in todo if results.get(m["id"], {}).get("result") == "caught"), len(todo)))

if __name__ == "__main__":
    main()
