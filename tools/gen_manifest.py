#!/usr/bin/env python3
"""Generates MANIFEST.json from the table below (single source of truth for claimed / not applicable)."""
import json, os, subprocess
VERIF = os.path.dirname(os.path.dirname(os.path.abspath(__file__)))

NA = {
 "C01": "pure function of (mode, instruction, operands, options): no schedule, fault, environment value or object history enters; deciding it needs a generated sweep past an independent decoder, which is a different technique",
 "C02": "pure function of (instruction, operands) for AArch64; same reason as C01",
 "C03": "label resolution is a deterministic function of the emitter-call sequence; buffer growth, its only environment contact, is covered as memory safety by C15/C16, which cannot judge whether a displacement is right",
 "C05": "semantic preservation of register allocation is a pure function of (program, inputs); deciding it needs an interpreter and native execution, not a simulator",
 "C06": "argument/return locations are a pure function of (signature, calling convention, target)",
 "C07": "frame layout and prolog/epilog are a pure function of the frame configuration",
 "C08": "Builder-vs-Assembler equality is a deterministic differential over one call sequence; there is no schedule, fault or history dimension for a simulator to own",
 "C10": "section layout and bounded copy are a pure function of the section table and the destination size",
 "C12": "read/write information is a per-instruction fact checked against the CPU, not a history",
 "C13": "validator/encoder/database agreement is a per-instruction-form fact",
 "C17": "field codecs are pure functions of (format, value)",
 "C20": "formatter text is a pure function of (instruction, operands, flags)",
}

# Claimed checks: filled in as they are built. Properties planned but not yet built are listed under PENDING.
CLAIMED = {}
PENDING = {}

def load_tables():
    path = os.path.join(VERIF, "tools", "manifest_checks.json")
    t = json.load(open(path))
    return t["claimed"], t["pending"]

def main():
    claimed, pending = load_tables()
    hooks = subprocess.run(["git", "-C", "/repo", "log", "--format=%H %s", "--grep=^verif hook"], stdout=subprocess.PIPE, text=True).stdout.strip().splitlines()
    m = {
      "version": 1,
      "setup_cmd": "python3 tools/build.py asan && python3 tools/build.py plain && python3 tools/build.py tsan",
      "hooks": {
        "guard": "ASMJIT_VERIF",
        "enable": "tools/build.py compiles every translation unit of /repo/asmjit (except asmjit/ujit) with -DASMJIT_STATIC -DASMJIT_VERIF -DASMJIT_NO_UJIT into build/lib-<flavour>-<hash>/libasmjit_v.a; the harness provides asmjit_verif_arena_request / asmjit_verif_tune / asmjit_verif_shared",
        "baseline_off_cmd": "cmake -G Ninja -S /repo -B /repo/_build -DASMJIT_TEST=ON >/dev/null && cmake --build /repo/_build -j16 && ctest --test-dir /repo/_build -j8 --timeout 900",
        "source_commits": [h.split()[0] for h in hooks][::-1],
        "add_only": True
      },
      "engines": [{"name": "simkit", "path": "sim/", "serves_properties": sorted(claimed.keys()),
                   "kind_free_text": "deterministic simulation with fault injection: seeded plans (operations with faults attached), link-time seams for heap / virtual memory / descriptors / mutexes, arena fault hook, seeded scheduler over real threads, reference models, delta-debugging minimiser, replay files"}],
      "checks": [],
      "not_applicable": [],
      "notes": "See DESIGN.md. ./check <id> quick|thorough rebuilds asmjit from /repo's working tree (content-hash keyed) and writes evidence/<id>.json. known_findings.txt lists fixed defects (fixed:) and unrepaired ones (finding:)."
    }
    for pid in sorted(claimed):
        c = claimed[pid]
        m["checks"].append({
          "property_id": pid,
          "quick_cmd": "./check %s quick" % pid,
          "thorough_cmd": "./check %s thorough" % pid,
          "evidence_file": "evidence/%s.json" % pid,
          "replay_cmd_template": "./check %s --replay {path}" % pid,
          "engine": "simkit",
          "level_claimed": {"category": c["level"], "text": c["text"], "design_ref": c["design_ref"]},
          "level_note": c["note"],
          "technique": c["technique"],
        })
    for pid in sorted(set(NA) | set(pending)):
        reason = NA.get(pid) or pending[pid]
        m["not_applicable"].append({"property_id": pid, "reason": reason})
    json.dump(m, open(os.path.join(VERIF, "MANIFEST.json"), "w"), indent=1)
    print("MANIFEST.json: %d checks, %d not applicable" % (len(m["checks"]), len(m["not_applicable"])))

if __name__ == "__main__":
    main()
