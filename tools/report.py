#!/usr/bin/env python3
"""Prints the markdown tables of DESIGN.md section 13.5 (mutant catalogue) and 13.6 (independently written changes)
from sensitivity_results.json and seeded/*/meta.json; with --update-design rewrites both tables inside DESIGN.md
(from the table header line to the line before the next blank-line-terminated paragraph / heading)."""
import json, os, glob, sys
V = os.path.dirname(os.path.dirname(os.path.abspath(__file__)))

def sensitivity_table():
    res = json.load(open(os.path.join(V, "sensitivity_results.json")))
    out = ["| mutant | property | file | change | verdict | violation class | s |", "|---|---|---|---|---|---|---|"]
    n = c = 0
    for k in sorted(res, key=lambda k: (res[k]["prop"], k)):
        r = res[k]; n += 1; c += r["result"] == "caught"
        cls = ", ".join(x.replace("class=", "") for x in r.get("classes", [])[:2])
        out.append("| %s | %s | %s | %s | %s | %s | %s |" % (k, r["prop"], os.path.basename(r.get("file", "")), r["what"], r["result"], cls, r.get("seconds", "")))
    out += ["", "%d of %d mutants caught by the quick check of their property (scale 0.5)." % (c, n)]
    return out

def seeded_table():
    out = ["| seeded change | property | needs | caught by (violation class) | note |", "|---|---|---|---|---|"]
    n = c = st = 0
    for f in sorted(glob.glob(os.path.join(V, "seeded", "*", "meta.json"))):
        m = json.load(open(f))
        ch = m["check"]; n += 1; c += ch["verdict"] == "caught"; st += "strengthening" in m
        note = "strengthened: yes" if "strengthening" in m else ""
        if m.get("obsolete"): note = (note + "; " if note else "") + "patch no longer applies (code rewritten by a fix)"
        out.append("| %s | %s | %s | `%s`: %s (%s) | %s |" % (m["id"], m["property"], m["needs_to_manifest"].split(";")[0][:160], ch["command"], ch["verdict"], ", ".join(x.replace("class=", "") for x in ch["violation_classes"][:2]), note))
    out += ["", "%d changes kept, %d caught by the quick check of their property, %d of them only after the check was strengthened." % (n, c, st)]
    return out

def replace_table(lines, header_prefix, new):
    i = next(k for k, l in enumerate(lines) if l.startswith(header_prefix))
    j = i
    while j < len(lines) and lines[j].startswith("|"): j += 1
    # the summary sentence that follows the table (blank line + one line)
    if j + 1 < len(lines) and lines[j] == "" and (" mutants caught " in lines[j + 1] or " changes kept, " in lines[j + 1]): j += 2
    return lines[:i] + new + lines[j:]

def main():
    if "--update-design" in sys.argv:
        p = os.path.join(V, "DESIGN.md")
        lines = open(p).read().split("\n")
        lines = replace_table(lines, "| mutant | property |", sensitivity_table())
        lines = replace_table(lines, "| seeded change | property |", seeded_table())
        open(p, "w").write("\n".join(lines))
        return
    print("\n".join(sensitivity_table())); print(); print("\n".join(seeded_table()))

if __name__ == "__main__":
    main()
