#!/usr/bin/env python3
"""Prints the markdown tables of DESIGN.md section 13.5 (mutant catalogue) and 13.6 (independently written changes)
from sensitivity_results.json and seeded/*/meta.json."""
import json, os, glob
V = os.path.dirname(os.path.dirname(os.path.abspath(__file__)))

def main():
    res = json.load(open(os.path.join(V, "sensitivity_results.json")))
    print("| mutant | property | file | change | verdict | violation class | s |")
    print("|---|---|---|---|---|---|---|")
    n = c = 0
    for k in sorted(res, key=lambda k: (res[k]["prop"], k)):
        r = res[k]; n += 1; c += r["result"] == "caught"
        cls = ", ".join(x.replace("class=", "") for x in r.get("classes", [])[:2])
        print("| %s | %s | %s | %s | %s | %s | %s |" % (k, r["prop"], os.path.basename(r.get("file", "")), r["what"], r["result"], cls, r.get("seconds", "")))
    print("\n%d of %d mutants caught by the quick check of their property (scale 0.5).\n" % (c, n))
    print("| seeded change | property | needs | caught by (violation class) | note |")
    print("|---|---|---|---|---|")
    for f in sorted(glob.glob(os.path.join(V, "seeded", "*", "meta.json"))):
        m = json.load(open(f))
        ch = m["check"]
        note = "strengthened: yes" if "strengthening" in m else ""
        print("| %s | %s | %s | `%s`: %s (%s) | %s |" % (m["id"], m["property"], m["needs_to_manifest"].split(";")[0][:160], ch["command"], ch["verdict"], ", ".join(x.replace("class=", "") for x in ch["violation_classes"][:2]), note))

if __name__ == "__main__":
    main()
