#!/usr/bin/env python3
"""Builds asmjit (from the repo working tree, hooks on) and the simulation harness for one flavour.

Usage: build.py <flavour> [--repo DIR]   -> prints the path of the harness binary on the last line.
Build directories are keyed by a content hash of the sources and flags, so an unchanged tree is reused and a
changed tree is rebuilt. A file lock serialises concurrent builds of the same flavour.
"""
import sys, os, hashlib, subprocess, fcntl, shutil, time, glob
from concurrent.futures import ThreadPoolExecutor

VERIF = os.path.dirname(os.path.dirname(os.path.abspath(__file__)))
BUILD = os.path.join(VERIF, "build")
CXX = os.environ.get("VERIF_CXX", "clang++")
JOBS = int(os.environ.get("VERIF_JOBS", "16"))

COMMON = ["-std=c++17", "-DASMJIT_STATIC", "-DASMJIT_VERIF", "-DASMJIT_NO_UJIT",
          "-fno-threadsafe-statics", "-fno-math-errno", "-fno-omit-frame-pointer", "-gline-tables-only"]
FLAVOURS = {
    "asan":  ["-O1", "-DNDEBUG", "-fsanitize=address,undefined", "-fno-sanitize-recover=undefined"],
    "dbg":   ["-O1", "-fsanitize=address,undefined", "-fno-sanitize-recover=undefined"],
    "tsan":  ["-O1", "-DNDEBUG", "-fsanitize=thread"],
    "plain": ["-O2", "-DNDEBUG"],
}
WRAPS = ["malloc", "realloc", "free", "mmap", "munmap", "mprotect", "madvise", "syscall", "shm_open", "shm_unlink",
         "open64", "open", "unlink", "ftruncate64", "ftruncate", "close", "read", "getpagesize",
         "pthread_mutex_lock", "pthread_mutex_unlock"]

def sha(paths, extra=""):
    h = hashlib.sha1()
    h.update(extra.encode())
    for p in sorted(paths):
        h.update(p.encode()); h.update(b"\0")
        with open(p, "rb") as f: h.update(f.read())
    return h.hexdigest()[:16]

def files_under(root, exts):
    out = []
    for d, dn, fn in os.walk(root):
        for f in fn:
            if f.endswith(exts): out.append(os.path.join(d, f))
    return out

def run_jobs(cmds):
    def one(c):
        r = subprocess.run(c, stdout=subprocess.PIPE, stderr=subprocess.STDOUT, text=True)
        return (c, r.returncode, r.stdout)
    failed = False
    with ThreadPoolExecutor(JOBS) as ex:
        for c, rc, out in ex.map(one, cmds):
            if rc != 0:
                failed = True
                sys.stderr.write("BUILD FAILED: %s\n%s\n" % (" ".join(c), out))
    if failed: sys.exit(2)

def prune(prefix, keep):
    ds = sorted(glob.glob(os.path.join(BUILD, prefix + "-*")), key=os.path.getmtime, reverse=True)
    now = time.time()
    for d in ds[keep:]:
        # never remove a directory another (concurrent) check may still be running or replaying from
        if ".tmp" in os.path.basename(d) or now - os.path.getmtime(d) < 900: continue
        shutil.rmtree(d, ignore_errors=True)

def main():
    flavour = sys.argv[1]
    repo = os.environ.get("VERIF_REPO", "/repo")
    if "--repo" in sys.argv: repo = sys.argv[sys.argv.index("--repo") + 1]
    flags = COMMON + FLAVOURS[flavour]
    os.makedirs(BUILD, exist_ok=True)
    lock = open(os.path.join(BUILD, ".lock-" + flavour), "w")
    fcntl.flock(lock, fcntl.LOCK_EX)

    src_all = files_under(os.path.join(repo, "asmjit"), (".h", ".cpp"))
    tus = [p for p in src_all if p.endswith(".cpp") and "/ujit/" not in p]
    libhash = sha(src_all, " ".join([CXX] + flags))
    libdir = os.path.join(BUILD, "lib-%s-%s" % (flavour, libhash))
    lib = os.path.join(libdir, "libasmjit_v.a")
    if not os.path.exists(lib):
        t0 = time.time()
        tmp = libdir + ".tmp%d" % os.getpid()
        shutil.rmtree(tmp, ignore_errors=True); os.makedirs(tmp)
        cmds, objs = [], []
        for i, tu in enumerate(sorted(tus)):
            o = os.path.join(tmp, "%03d_%s.o" % (i, os.path.basename(tu)[:-4]))
            objs.append(o)
            cmds.append([CXX] + flags + ["-I" + repo, "-c", tu, "-o", o])
        run_jobs(cmds)
        subprocess.check_call(["ar", "rcs", os.path.join(tmp, "libasmjit_v.a")] + objs)
        for o in objs: os.unlink(o)
        shutil.rmtree(libdir, ignore_errors=True); os.rename(tmp, libdir)
        sys.stderr.write("[build] %s: asmjit library built from %s in %.1fs (%d TUs)\n" % (flavour, repo, time.time() - t0, len(tus)))
        prune("lib-" + flavour, 4)
    else:
        os.utime(libdir)

    hsrc = []
    for sub in ("sim", "props", "gen"):
        hsrc += files_under(os.path.join(VERIF, sub), (".h", ".cpp"))
    # The repository's AArch64 assembler test is compiled into the harness against gen/shadow/ (form harvest for C14);
    # scratch copies that only hold asmjit/ use /repo's copy of the test.
    a64test = os.path.join(repo, "asmjit-testing", "tests", "asmjit_test_assembler_a64.cpp")
    if not os.path.exists(a64test): a64test = "/repo/asmjit-testing/tests/asmjit_test_assembler_a64.cpp"
    # Public headers of the repo influence harness objects too; libhash covers them.
    binhash = sha(hsrc + [a64test], libhash + " ".join(WRAPS))
    bindir = os.path.join(BUILD, "bin-%s-%s" % (flavour, binhash))
    exe = os.path.join(bindir, "simbin")
    if not os.path.exists(exe):
        t0 = time.time()
        tmp = bindir + ".tmp%d" % os.getpid()
        shutil.rmtree(tmp, ignore_errors=True); os.makedirs(tmp)
        cmds, objs = [], []
        for i, tu in enumerate(sorted(p for p in hsrc if p.endswith(".cpp"))):
            o = os.path.join(tmp, "%03d_%s.o" % (i, os.path.basename(tu)[:-4]))
            objs.append(o)
            cmds.append([CXX] + flags + ["-DSIM_FLAVOUR=\"%s\"" % flavour, "-DSIM_FLAVOUR_%s=1" % flavour.upper(),
                                         "-I" + repo, "-I" + VERIF, "-Wall", "-Wno-unused-function", "-c", tu, "-o", o])
        o = os.path.join(tmp, "a64test.o"); objs.append(o)
        cmds.append([CXX] + flags + ["-I" + os.path.join(VERIF, "gen", "shadow"), "-I" + repo, "-I" + VERIF, "-c", a64test, "-o", o])
        for c in cmds:
            if c[-3].endswith("a64forms.cpp"): c.insert(len(flags) + 1, "-I" + os.path.join(VERIF, "gen", "shadow"))
        cmds.sort(key=lambda c: 0 if c[-3] == a64test else 1)   # the big one first
        run_jobs(cmds)
        link = [CXX] + flags + objs + [lib] + ["-Wl," + ",".join("--wrap=" + w for w in WRAPS), "-lpthread", "-lrt", "-o", os.path.join(tmp, "simbin")]
        r = subprocess.run(link, stdout=subprocess.PIPE, stderr=subprocess.STDOUT, text=True)
        if r.returncode != 0:
            sys.stderr.write("LINK FAILED: %s\n%s\n" % (" ".join(link), r.stdout)); sys.exit(2)
        for o in objs: os.unlink(o)
        shutil.rmtree(bindir, ignore_errors=True); os.rename(tmp, bindir)
        sys.stderr.write("[build] %s: harness built in %.1fs\n" % (flavour, time.time() - t0))
        prune("bin-" + flavour, 4)
    else:
        os.utime(bindir)
    print(exe)

if __name__ == "__main__":
    main()
