// AArch64 instruction forms harvested from the repository's own assembler test
// (asmjit-testing/tests/asmjit_test_assembler_a64.cpp, compiled into the harness against a shadowed tester header):
// every TEST_INSTRUCTION line is run once against an a64::Builder and the recorded instruction node (id, options,
// operands) is kept. These are "the database forms with their operand kinds" C14 perturbs.
#pragma once
#include <asmjit/core.h>
#include <string>
#include <vector>

namespace gen {

struct A64Form {
  uint32_t inst_id;
  uint32_t options;
  uint32_t op_count;
  asmjit::Operand_ ops[6];
  std::string text;
};

// Harvests on first use (call it from a warm-up hook, outside simulated runs).
const std::vector<A64Form>& a64_forms();

} // namespace gen
