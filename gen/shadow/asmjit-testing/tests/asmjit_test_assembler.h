// Shadows asmjit-testing/tests/asmjit_test_assembler.h of the repository (this directory precedes the repository on the
// include path when asmjit_test_assembler_a64.cpp is compiled into the harness): the "assembler" the test's
// TEST_INSTRUCTION lines drive is an a64::Builder, and every instruction node it records is harvested as one valid
// database form (instruction id, options, operands) for the C14 check.
#ifndef VERIF_SHADOW_ASMJIT_TEST_ASSEMBLER_H
#define VERIF_SHADOW_ASMJIT_TEST_ASSEMBLER_H

#include <asmjit/core.h>
#include <asmjit/a64.h>

#include <stdio.h>

struct TestSettings {
  bool verbose;
  bool validate;
};

namespace gen { void a64_harvest_record(uint32_t inst_id, uint32_t options, const asmjit::Operand_* ops, size_t op_count, const char* text); }

template<typename AssemblerType>
class AssemblerTester {
public:
  asmjit::Environment env {};
  asmjit::CodeHolder code {};
  asmjit::a64::Builder assembler {};
  asmjit::Label L0 {};
  const TestSettings& settings;
  asmjit::BaseNode* last_seen = nullptr;

  AssemblerTester(asmjit::Arch arch, const TestSettings& settings) noexcept : env(arch), settings(settings) {
    (void)code.init(env, 0);
    (void)code.attach(&assembler);
    L0 = assembler.new_label();
  }

  void print_header(const char*) noexcept {}
  void print_summary() noexcept {}
  bool did_pass() const noexcept { return true; }

  ASMJIT_NOINLINE bool test_valid_instruction(const char* s, const char*, asmjit::Error err = asmjit::Error::kOk) noexcept {
    asmjit::BaseNode* n = assembler.cursor();
    if (err == asmjit::Error::kOk && n && n != last_seen && n->is_inst()) {
      asmjit::InstNode* in = n->as<asmjit::InstNode>();
      gen::a64_harvest_record(uint32_t(in->inst_id()), uint32_t(in->options()), in->operands_data(), in->op_count(), s);
    }
    last_seen = n;
    return true;
  }

  ASMJIT_NOINLINE bool test_invalid_instruction(const char*, asmjit::Error, asmjit::Error) noexcept { return true; }
};

#endif
