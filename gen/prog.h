// Deterministic program generators shared by C04/C11/C14/C15/C16.
//
// A Program is a list of emitter calls (Steps) that can be replayed on any BaseEmitter (Assembler, Builder, Compiler)
// of the matching target. Generation only needs to be valid and deterministic; no oracle relies on what an
// instruction means.
#ifndef GEN_PROG_H
#define GEN_PROG_H

#include "sim/sim.h"
#include <asmjit/core.h>
#include <asmjit/x86.h>
#include <asmjit/a64.h>

#include <string>
#include <vector>

namespace gen {

using namespace asmjit;

enum class Target : uint8_t { kX86 = 0, kX64 = 1, kA64 = 2 };
static inline Arch arch_of(Target t) { return t == Target::kX86 ? Arch::kX86 : t == Target::kX64 ? Arch::kX64 : Arch::kAArch64; }
static inline const char* target_name(Target t) { return t == Target::kX86 ? "x86" : t == Target::kX64 ? "x64" : "a64"; }

enum class OpKind : uint8_t { kNone, kGp32, kGp64, kGp8, kGp16, kXmm, kYmm, kZmm, kA64X, kA64W, kA64V, kImm, kLabel, kMem };

struct MemSpec {
  uint8_t form = 0;      // 0 [base+disp], 1 [base+index<<shift+disp], 2 [label+disp], 3 [abs], 4 a64 [base, #off]
  uint8_t base = 0, index = 0, shift = 0, size = 0;
  uint32_t label = 0;
  int64_t disp = 0;
};

struct OperandSpec {
  OpKind kind = OpKind::kNone;
  uint32_t id = 0;        // register id / label index
  int64_t imm = 0;
  MemSpec mem;
};

enum class StepKind : uint8_t {
  kInst, kNewLabel, kBind, kAlign, kEmbed, kEmbedArray, kEmbedLabel, kEmbedLabelDelta, kEmbedConstPool, kNewSection, kSection, kComment
};

struct Step {
  StepKind kind = StepKind::kInst;
  uint32_t inst_id = 0;
  uint32_t inst_options = 0;
  uint8_t extra_reg = 0;            // x86: 1..7 = AVX-512 mask register k1..k7 set through set_extra_reg() before the call
  uint8_t nops = 0;
  OperandSpec ops[6];
  uint32_t a = 0, b = 0, c = 0;     // label indexes / sizes / alignment / section index
  int32_t d = 0;
  std::string text;                 // names, comments
  std::vector<uint8_t> data;        // embedded data / constants
  bool inline_comment = false;
};

struct Program {
  Target target = Target::kX64;
  std::vector<Step> steps;
  uint32_t label_count = 0;
  uint32_t section_count = 0;       // extra sections created by the program
};

struct GenOptions {
  size_t steps = 40;
  bool sections = true;       // may create and switch sections
  bool abs_refs = true;       // may emit absolute references (relocations, address table)
  bool data = true;
  bool named_labels = true;
  bool comments = true;
  uint32_t extra_labels = 0;  // labels created up front in addition to the usual 1..4 (large label tables outgrow the arena's reusable slots)
};

Program generate_program(sim::Rng& r, Target target, const GenOptions& opt);

// Replay state of one program on one emitter / holder.
struct ApplyCtx {
  std::vector<Label> labels;
  std::vector<Section*> sections;   // index 0 = .text
  std::vector<Error> results;       // one per executed step
  size_t first_error_step = SIZE_MAX;
};

// Applies step `i`. Returns the error the call reported (labels that could not be created report kOutOfMemory).
Error apply_step(BaseEmitter& e, CodeHolder& code, const Program& p, size_t i, ApplyCtx& ctx);
// Undoes the bookkeeping apply_step() did for a step that reported an error, so that the step can be applied again.
void undo_failed_step(const Program& p, size_t i, ApplyCtx& ctx);
// Applies steps [from, to) and stops at the first error when `stop_on_error`. Returns the first error.
Error apply_range(BaseEmitter& e, CodeHolder& code, const Program& p, size_t from, size_t to, ApplyCtx& ctx, bool stop_on_error);

// Canonical textual snapshot of everything observable in a holder: sections (table + bytes), labels, relocations,
// unresolved fixup count, address table. Contains no heap addresses.
std::string snapshot(const CodeHolder& code, bool ignore_orphan_labels = false);
uint64_t snapshot_hash(const CodeHolder& code);

// ---- Compiler programs (virtual registers) -------------------------------------------------------------------------
struct FuncParams {
  uint64_t seed = 0;
  uint32_t live_values = 8;     // register pressure
  uint32_t blocks = 3;          // diamonds / loops
  bool calls = true;
  bool jump_table = true;
  bool consts = true;
  bool global_consts = true;
  bool stack = true;
  bool vec = true;
  uint32_t vec_live = 0;         // x86: this many additional vector values stay live to the end (more than the register file holds -> vector spills)
  uint32_t undef_reads = 0;      // this many extra virtual registers are read without ever being written (undefined values: only for functions that are never executed)
  bool avx = false;              // x86: the function uses AVX and enables it in its frame (the allocator then has to emit VEX moves / spills)
};

// Emits one complete function (add_func .. end_func) through the typed Compiler API. Returns false when a call
// reported an error (the emitter's error handler is expected to record it; see RecordingHandler).
class RecordingHandler : public ErrorHandler {
public:
  Error first = Error::kOk;
  uint32_t count = 0;
  bool throw_on_error = false;
  void handle_error(Error err, const char* message, BaseEmitter* origin) override;
  void reset() { first = Error::kOk; count = 0; }
};

bool build_x86_function(x86::Compiler& cc, const FuncParams& fp, RecordingHandler& eh);
bool build_a64_function(a64::Compiler& cc, const FuncParams& fp, RecordingHandler& eh);

} // namespace gen

#endif
