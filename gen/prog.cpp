#include "gen/prog.h"

#include <asmjit/core/constpool.h>
#include <stdio.h>
#include <string.h>

namespace gen {

using sim::Rng;

// ---------------------------------------------------------------------------------------------------------------
// Generation
// ---------------------------------------------------------------------------------------------------------------

namespace {

struct G {
  Rng& r;
  Target t;
  const GenOptions& opt;
  Program p;
  std::vector<uint8_t> bound;   // per label: 0 unbound, 1 bound
  uint32_t cur_section = 0;

  G(Rng& r, Target t, const GenOptions& o) : r(r), t(t), opt(o) { p.target = t; }

  bool is64() const { return t == Target::kX64; }
  uint32_t gp_count() const { return t == Target::kX86 ? 8 : 16; }

  OperandSpec gp_native(uint32_t id) { OperandSpec o; o.kind = is64() ? OpKind::kGp64 : OpKind::kGp32; o.id = id; return o; }
  OperandSpec gp32(uint32_t id) { OperandSpec o; o.kind = OpKind::kGp32; o.id = id; return o; }
  OperandSpec any_gp() { uint32_t id = uint32_t(r.below(gp_count())); return (is64() && r.chance(1, 2)) ? gp_native(id) : gp32(id); }
  OperandSpec same_kind_gp(const OperandSpec& o) { OperandSpec q = o; q.id = uint32_t(r.below(gp_count())); return q; }
  OperandSpec xmm() { OperandSpec o; o.kind = OpKind::kXmm; o.id = uint32_t(r.below(t == Target::kX86 ? 8 : 16)); return o; }
  OperandSpec ymm() { OperandSpec o; o.kind = OpKind::kYmm; o.id = uint32_t(r.below(t == Target::kX86 ? 8 : 16)); return o; }
  OperandSpec zmm() { OperandSpec o; o.kind = OpKind::kZmm; o.id = uint32_t(r.below(t == Target::kX86 ? 8 : 32)); return o; }
  OperandSpec imm(int64_t v) { OperandSpec o; o.kind = OpKind::kImm; o.imm = v; return o; }
  OperandSpec label_op(uint32_t idx) { OperandSpec o; o.kind = OpKind::kLabel; o.id = idx; return o; }

  int64_t any_imm32() {
    switch (r.below(6)) {
      case 0: return int64_t(r.below(128));
      case 1: return -int64_t(r.below(129));
      case 2: return int64_t(r.below(0x7fffffff));
      case 3: return -int64_t(r.below(0x80000000ull));
      case 4: return 127 + int64_t(r.below(3));
      default: return int64_t(r.below(70000));
    }
  }

  uint32_t new_label(bool allow_named = true) {
    Step s; s.kind = StepKind::kNewLabel;
    uint32_t idx = p.label_count++;
    if (allow_named && opt.named_labels && r.chance(1, 4)) {
      char b[48];
      if (r.chance(1, 3) && idx > 0) { s.a = 2; s.b = uint32_t(r.below(idx)); snprintf(b, sizeof b, "local_%u", idx); }   // local label with a parent
      else { s.a = 1; snprintf(b, sizeof b, "global_label_%u_%s", idx, r.chance(1, 3) ? "with_a_rather_long_name_to_leave_the_embedded_storage" : "x"); }
      s.text = b;
    }
    else if (r.chance(1, 6)) s.a = 3;   // created through the CodeHolder, not through the emitter that will use it
    p.steps.push_back(s);
    bound.push_back(0);
    return idx;
  }

  uint32_t some_label() {
    if (p.label_count == 0 || r.chance(1, 5)) return new_label();
    return uint32_t(r.below(p.label_count));
  }

  void bind(uint32_t idx) { Step s; s.kind = StepKind::kBind; s.a = idx; p.steps.push_back(s); bound[idx] = 1; label_section.resize(p.label_count, 0); label_section[idx] = cur_section; }
  std::vector<uint32_t> label_section;

  MemSpec x86_mem(uint8_t size) {
    MemSpec m; m.size = size;
    switch (r.below(opt.abs_refs ? 7 : 5)) {
      case 0: case 1: m.form = 0; m.base = uint8_t(r.below(gp_count())); m.disp = mem_disp(); break;
      case 2: case 3: m.form = 1; m.base = uint8_t(r.below(gp_count())); do { m.index = uint8_t(r.below(gp_count())); } while (m.index == 4); m.shift = uint8_t(r.below(4)); m.disp = mem_disp(); break;
      case 4: m.form = 0; m.base = uint8_t(r.chance(1, 2) ? 4 : 5); if (is64() && r.chance(1, 2)) m.base = uint8_t(r.chance(1, 2) ? 12 : 13); m.disp = r.chance(1, 2) ? 0 : mem_disp(); break;   // rsp/rbp/r12/r13 special cases
      case 5: m.form = 2; m.label = some_label(); m.disp = r.chance(1, 2) ? 0 : int64_t(r.below(64)); break;
      default: m.form = 3; m.disp = int64_t(0x1000 + r.below(0x70000000)); break;
    }
    return m;
  }
  int64_t mem_disp() { switch (r.below(5)) { case 0: return 0; case 1: return int64_t(r.below(128)); case 2: return -int64_t(r.below(129)); case 3: return int64_t(120 + r.below(16)); default: return int64_t(r.below(100000)) - 50000; } }
  OperandSpec mem_op(uint8_t size) { OperandSpec o; o.kind = OpKind::kMem; o.mem = x86_mem(size); return o; }

  void inst(uint32_t id, std::initializer_list<OperandSpec> ops) {
    Step s; s.kind = StepKind::kInst; s.inst_id = id;
    for (auto& o : ops) s.ops[s.nops++] = o;
    if (opt.comments && r.chance(1, 12)) { s.inline_comment = true; s.text = "inline comment"; }
    p.steps.push_back(s);
  }

  void x86_step() {
    namespace I = x86::Inst;
    static const uint32_t alu[] = {I::kIdAdd, I::kIdSub, I::kIdAnd, I::kIdOr, I::kIdXor, I::kIdCmp, I::kIdAdc, I::kIdSbb};
    static const uint32_t jcc[] = {I::kIdJz, I::kIdJnz, I::kIdJl, I::kIdJge, I::kIdJa, I::kIdJb, I::kIdJs, I::kIdJle};
    switch (r.below(22)) {
      case 0: { OperandSpec a = any_gp(); inst(I::kIdMov, {a, same_kind_gp(a)}); break; }
      case 1: { OperandSpec a = any_gp(); inst(I::kIdMov, {a, imm(any_imm32())}); break; }
      case 2: { OperandSpec a = any_gp(); inst(I::kIdMov, {a, mem_op(a.kind == OpKind::kGp64 ? 8 : 4)}); break; }
      case 3: { OperandSpec a = any_gp(); inst(I::kIdMov, {mem_op(a.kind == OpKind::kGp64 ? 8 : 4), a}); break; }
      case 4: { OperandSpec a = any_gp(); inst(r.pick(alu), {a, same_kind_gp(a)}); break; }
      case 5: { OperandSpec a = any_gp(); inst(r.pick(alu), {a, imm(any_imm32())}); break; }
      case 6: { OperandSpec a = any_gp(); inst(r.pick(alu), {a, mem_op(a.kind == OpKind::kGp64 ? 8 : 4)}); break; }
      case 7: {
        OperandSpec a = any_gp(); uint32_t id = r.pick(alu); inst(id, {mem_op(a.kind == OpKind::kGp64 ? 8 : 4), a});
        // one-shot state: lock prefix (instruction option) on a read-modify-write memory destination
        if (id != I::kIdCmp && r.chance(1, 3)) p.steps.back().inst_options = uint32_t(InstOptions::kX86_Lock);
        break;
      }
      case 8: { OperandSpec a = gp_native(uint32_t(r.below(gp_count()))); OperandSpec m = mem_op(0); if (m.mem.form == 3) m.mem.form = 0; inst(I::kIdLea, {a, m}); break; }
      case 9: { OperandSpec a = any_gp(); inst(I::kIdTest, {a, same_kind_gp(a)}); break; }
      case 10: { inst(r.chance(1, 2) ? I::kIdInc : I::kIdDec, {any_gp()}); break; }
      case 11: { static const uint32_t sh[] = {I::kIdShl, I::kIdShr, I::kIdSar, I::kIdRol}; inst(r.pick(sh), {any_gp(), imm(int64_t(r.below(32)))}); break; }
      case 12: { OperandSpec a = any_gp(); inst(I::kIdImul, {a, same_kind_gp(a)}); break; }
      case 13: { inst(r.chance(1, 2) ? I::kIdPush : I::kIdPop, {gp_native(uint32_t(r.below(gp_count())))}); break; }
      case 14: { inst(r.chance(1, 4) ? I::kIdRet : I::kIdNop, {}); break; }
      case 15: { inst(I::kIdJmp, {label_op(some_label())}); break; }
      case 16: case 17: { inst(r.pick(jcc), {label_op(some_label())}); break; }
      case 18: { inst(I::kIdCall, {label_op(some_label())}); break; }
      case 19: {
        switch (r.below(5)) {
          case 0: inst(I::kIdMovaps, {xmm(), xmm()}); break;
          case 1: inst(I::kIdMovups, {xmm(), mem_op(16)}); break;
          case 2: inst(I::kIdMovups, {mem_op(16), xmm()}); break;
          case 3: inst(r.chance(1, 2) ? I::kIdAddps : I::kIdPxor, {xmm(), xmm()}); break;
          default: inst(I::kIdMovd, {xmm(), gp32(uint32_t(r.below(gp_count())))}); break;
        }
        break;
      }
      case 20: {
        switch (r.below(3)) {
          case 0: inst(I::kIdVaddps, {ymm(), ymm(), ymm()}); break;
          case 1: inst(I::kIdVmovups, {ymm(), mem_op(32)}); break;
          default: {
            // one-shot state: AVX-512 mask register passed as the extra register, optionally with zeroing
            inst(r.chance(1, 2) ? I::kIdVaddps : I::kIdVpaddd, {zmm(), zmm(), zmm()});
            p.steps.back().extra_reg = uint8_t(1 + r.below(7));
            if (r.chance(1, 3)) p.steps.back().inst_options = uint32_t(InstOptions::kX86_ZMask);
            break;
          }
        }
        break;
      }
      default: {
        if (!opt.abs_refs) { inst(I::kIdNop, {}); break; }
        // absolute targets: relocations (and the address table in 64-bit mode)
        uint64_t target = is64() ? (r.chance(1, 2) ? 0x10000000ull + r.below(0x60000000) : 0x7e9000000000ull + r.below(0x100000000ull)) : 0x10000000ull + r.below(0x60000000);
        inst(r.chance(1, 2) ? I::kIdCall : I::kIdJmp, {imm(int64_t(target))});
        break;
      }
    }
  }

  OperandSpec ax(uint32_t id) { OperandSpec o; o.kind = OpKind::kA64X; o.id = id; return o; }
  OperandSpec aw(uint32_t id) { OperandSpec o; o.kind = OpKind::kA64W; o.id = id; return o; }
  uint32_t areg() { return uint32_t(r.below(29)); }
  OperandSpec a64_mem(uint32_t scale) { OperandSpec o; o.kind = OpKind::kMem; o.mem.form = 4; o.mem.base = uint8_t(areg()); o.mem.disp = int64_t(r.below(256)) * scale; return o; }
  OperandSpec a64_label_mem(uint32_t label) { OperandSpec o; o.kind = OpKind::kMem; o.mem.form = 2; o.mem.label = label; return o; }

  void a64_step() {
    namespace I = a64::Inst;
    static const uint32_t alu[] = {I::kIdAdd, I::kIdSub, I::kIdAnd, I::kIdOrr, I::kIdEor, I::kIdMul};
    static const arm::CondCode ccs[] = {arm::CondCode::kEQ, arm::CondCode::kNE, arm::CondCode::kLT, arm::CondCode::kGE, arm::CondCode::kHI, arm::CondCode::kLS};
    switch (r.below(18)) {
      case 16: {
        // instructions with 4 and 5 operands (the last ones travel separately from the first three through Builder nodes and
        // their serialisation): madd, and table lookups with 2..3 table registers
        auto av = [&](uint32_t id) { OperandSpec o; o.kind = OpKind::kA64V; o.id = id; return o; };
        uint32_t t = uint32_t(r.below(28));
        switch (r.below(3)) {
          case 0: inst(I::kIdMadd, {ax(areg()), ax(areg()), ax(areg()), ax(areg())}); break;
          case 1: inst(I::kIdTbl_v, {av(uint32_t(r.below(32))), av(t), av(t + 1), av(uint32_t(r.below(32)))}); break;
          default: inst(I::kIdTbl_v, {av(uint32_t(r.below(32))), av(t), av(t + 1), av(t + 2), av(uint32_t(r.below(32)))}); break;
        }
        break;
      }
      case 15: { // logical (bit-mask) immediates: a run of ones rotated within an element, replicated over the register
        bool w = r.chance(1, 3);
        uint32_t width = w ? 32 : 64, e = 2u << r.below(w ? 5 : 6), ones = 1 + uint32_t(r.below(e - 1)), rot = uint32_t(r.below(e));
        uint64_t elem = ones == 64 ? ~uint64_t(0) : ((uint64_t(1) << ones) - 1);
        if (rot) elem = ((elem >> rot) | (elem << (e - rot))) & (e == 64 ? ~uint64_t(0) : ((uint64_t(1) << e) - 1));
        uint64_t mask = 0; for (uint32_t i = 0; i < width; i += e) mask |= elem << i;
        static const uint32_t logical[] = {I::kIdAnd, I::kIdOrr, I::kIdEor, I::kIdAnds};
        uint32_t which = uint32_t(r.below(6));
        if (which == 4) inst(I::kIdTst, {w ? aw(areg()) : ax(areg()), imm(int64_t(mask))});
        else if (which == 5) inst(I::kIdMov, {w ? aw(areg()) : ax(areg()), imm(int64_t(mask))});
        else inst(logical[which], {w ? aw(areg()) : ax(areg()), w ? aw(areg()) : ax(areg()), imm(int64_t(mask))});
        break;
      }
      case 0: case 1: { bool w = r.chance(1, 3); inst(r.pick(alu), {w ? aw(areg()) : ax(areg()), w ? aw(areg()) : ax(areg()), w ? aw(areg()) : ax(areg())}); break; }
      case 2: { inst(r.chance(1, 2) ? I::kIdAdd : I::kIdSub, {ax(areg()), ax(areg()), imm(int64_t(r.below(4096)))}); break; }
      case 3: { inst(I::kIdMov, {ax(areg()), ax(areg())}); break; }
      case 4: { inst(I::kIdMovz, {ax(areg()), imm(int64_t(r.below(65536)))}); break; }
      case 5: { inst(I::kIdLdr, {ax(areg()), a64_mem(8)}); break; }
      case 6: { inst(I::kIdStr, {ax(areg()), a64_mem(8)}); break; }
      case 7: { inst(r.chance(1, 2) ? I::kIdLdr : I::kIdStr, {aw(areg()), a64_mem(4)}); break; }
      case 8: { inst(I::kIdB, {label_op(some_label())}); break; }
      case 9: case 10: { inst(BaseInst::compose_arm_inst_id(I::kIdB, r.pick(ccs)), {label_op(some_label())}); break; }
      case 11: { inst(r.chance(1, 2) ? I::kIdCbz : I::kIdCbnz, {ax(areg()), label_op(some_label())}); break; }
      case 12: { inst(I::kIdAdr, {ax(areg()), label_op(some_label())}); break; }
      case 13: { inst(I::kIdLdr, {ax(areg()), a64_label_mem(some_label())}); break; }
      case 14: { inst(I::kIdBl, {label_op(some_label())}); break; }
      default: { if (r.chance(1, 3)) inst(I::kIdRet, {ax(30)}); else inst(I::kIdNop, {}); break; }
    }
  }

  void misc_step() {
    switch (r.below(10)) {
      case 0: case 1: { // bind some unbound label
        std::vector<uint32_t> un; for (uint32_t i = 0; i < p.label_count; i++) if (!bound[i]) un.push_back(i);
        if (un.empty()) { bind(new_label()); break; }
        bind(r.pick(un));
        break;
      }
      case 2: { Step s; s.kind = StepKind::kAlign; s.a = uint32_t(r.below(3)); s.b = 1u << r.below(7); p.steps.push_back(s); break; }
      case 3: {
        if (!opt.data) break;
        Step s; s.kind = StepKind::kEmbed; size_t n = size_t(1 + r.below(r.chance(1, 6) ? 300 : 24)); for (size_t i = 0; i < n; i++) s.data.push_back(uint8_t(r.next())); p.steps.push_back(s);
        break;
      }
      case 4: {
        if (!opt.data) break;
        Step s; s.kind = StepKind::kEmbedArray;
        static const TypeId tids[] = {TypeId::kUInt8, TypeId::kUInt16, TypeId::kUInt32, TypeId::kUInt64, TypeId::kFloat32, TypeId::kFloat64};
        s.a = uint32_t(r.pick(tids)); s.b = uint32_t(1 + r.below(6)); s.c = uint32_t(1 + r.below(3));
        for (size_t i = 0; i < size_t(s.b) * 8; i++) s.data.push_back(uint8_t(r.next()));
        p.steps.push_back(s);
        break;
      }
      case 5: {
        if (!opt.data || !opt.abs_refs) break;
        Step s; s.kind = StepKind::kEmbedLabel; s.a = some_label(); s.b = t == Target::kX86 ? (r.chance(1, 2) ? 0 : 4) : (r.chance(1, 2) ? 0 : 8); p.steps.push_back(s);
        break;
      }
      case 6: {
        if (!opt.data) break;
        Step s; s.kind = StepKind::kEmbedLabelDelta; s.a = some_label(); s.b = some_label(); static const uint32_t sz[] = {0, 4, 8}; s.c = r.pick(sz); if (t == Target::kX86 && s.c == 8) s.c = 4; p.steps.push_back(s);
        break;
      }
      case 7: {
        if (!opt.data) break;
        Step s; s.kind = StepKind::kEmbedConstPool; s.a = new_label(false);
        bound[s.a] = 1;
        size_t n = size_t(1 + r.below(5));
        for (size_t i = 0; i < n; i++) { size_t sz = size_t(1) << r.below(6); s.data.push_back(uint8_t(sz)); for (size_t k = 0; k < sz; k++) s.data.push_back(uint8_t(r.below(4) ? r.next() : 0)); }
        p.steps.push_back(s);
        break;
      }
      case 8: {
        if (!opt.sections) break;
        if (p.section_count < 3 && r.chance(1, 2)) {
          Step s; s.kind = StepKind::kNewSection; char b[32]; snprintf(b, sizeof b, ".sec%u", p.section_count); s.text = b;
          s.a = uint32_t(r.below(4)); s.b = 1u << r.below(7); s.d = int32_t(r.below(5)) - 2;
          p.steps.push_back(s); p.section_count++;
        }
        // (sometimes a second section is created right away and the emitter switches to the LAST one first: a Builder then
        // meets a section id that is two above the highest it has seen)
        bool jump_to_last = false;
        if (p.section_count < 3 && r.chance(1, 3)) {
          Step s; s.kind = StepKind::kNewSection; char b[32]; snprintf(b, sizeof b, ".sec%u", p.section_count); s.text = b;
          s.a = uint32_t(r.below(4)); s.b = 1u << r.below(7); s.d = int32_t(r.below(5)) - 2;
          p.steps.push_back(s); p.section_count++; jump_to_last = true;
        }
        if (p.section_count) { Step s; s.kind = StepKind::kSection; s.a = jump_to_last ? p.section_count : uint32_t(r.below(p.section_count + 1)); cur_section = s.a; p.steps.push_back(s); }
        break;
      }
      default: { if (!opt.comments) break; Step s; s.kind = StepKind::kComment; s.text = "a comment node"; p.steps.push_back(s); break; }
    }
  }

  void run() {
    uint32_t initial_labels = uint32_t(1 + r.below(4)) + opt.extra_labels;
    for (uint32_t i = 0; i < initial_labels; i++) new_label();
    while (p.steps.size() < opt.steps) {
      if (r.chance(1, 4)) {
        size_t before = p.steps.size();
        misc_step();
        // AArch64 code and literal references need 4-byte aligned positions: realign after data of arbitrary size.
        if (t == Target::kA64 && p.steps.size() > before) {
          StepKind k = p.steps.back().kind;
          if (k == StepKind::kEmbed || k == StepKind::kEmbedArray || k == StepKind::kEmbedConstPool || k == StepKind::kEmbedLabelDelta || k == StepKind::kSection) { Step a; a.kind = StepKind::kAlign; a.a = 2; a.b = 4; p.steps.push_back(a); }
        }
      }
      else if (t == Target::kA64) a64_step();
      else x86_step();
    }
    // Bind whatever is left so that no reference stays dangling (cross-section fixups may legitimately remain).
    for (uint32_t i = 0; i < p.label_count; i++) if (!bound[i]) bind(i);
    if (t == Target::kA64) inst(a64::Inst::kIdRet, {ax(30)}); else inst(x86::Inst::kIdRet, {});
  }
};

} // namespace

Program generate_program(Rng& r, Target target, const GenOptions& opt) {
  G g(r, target, opt);
  g.run();
  return g.p;
}

// ---------------------------------------------------------------------------------------------------------------
// Replay
// ---------------------------------------------------------------------------------------------------------------

static Operand make_operand(const Program& p, const OperandSpec& o, ApplyCtx& ctx) {
  switch (o.kind) {
    case OpKind::kGp32: return x86::gpd(o.id);
    case OpKind::kGp64: return x86::gpq(o.id);
    case OpKind::kGp16: return x86::gpw(o.id);
    case OpKind::kGp8: return x86::gpb(o.id);
    case OpKind::kXmm: return x86::xmm(o.id);
    case OpKind::kYmm: return x86::ymm(o.id);
    case OpKind::kZmm: return x86::zmm(o.id);
    case OpKind::kA64X: return a64::x(o.id);
    case OpKind::kA64W: return a64::w(o.id);
    case OpKind::kA64V: return a64::v(o.id).b16();
    case OpKind::kImm: return Imm(o.imm);
    case OpKind::kLabel: return o.id < ctx.labels.size() ? ctx.labels[o.id] : Label();
    case OpKind::kMem: {
      const MemSpec& m = o.mem;
      if (p.target == Target::kA64) {
        if (m.form == 2) return a64::ptr(m.label < ctx.labels.size() ? ctx.labels[m.label] : Label());
        return a64::ptr(a64::x(m.base), int32_t(m.disp));
      }
      bool is64 = p.target == Target::kX64;
      x86::Gp base = is64 ? x86::gpq(m.base) : x86::gpd(m.base);
      x86::Gp index = is64 ? x86::gpq(m.index) : x86::gpd(m.index);
      x86::Mem mem;
      switch (m.form) {
        case 0: mem = x86::ptr(base, int32_t(m.disp)); break;
        case 1: mem = x86::ptr(base, index, m.shift, int32_t(m.disp)); break;
        case 2: mem = x86::ptr(m.label < ctx.labels.size() ? ctx.labels[m.label] : Label(), int32_t(m.disp)); break;
        default: mem = x86::ptr(uint64_t(m.disp)); break;
      }
      if (m.size) mem.set_size(m.size);
      return mem;
    }
    default: return Operand();
  }
}

Error apply_step(BaseEmitter& e, CodeHolder& code, const Program& p, size_t i, ApplyCtx& ctx) {
  const Step& s = p.steps[i];
  if (ctx.sections.empty()) ctx.sections.push_back(code.text_section());
  Error err = Error::kOk;
  auto label_at = [&](uint32_t idx) { return idx < ctx.labels.size() ? ctx.labels[idx] : Label(); };
  switch (s.kind) {
    case StepKind::kInst: {
      Operand ops[6];
      for (uint8_t k = 0; k < s.nops; k++) ops[k] = make_operand(p, s.ops[k], ctx);
      if (s.inst_options) e.set_inst_options(InstOptions(s.inst_options));
      if (s.extra_reg) e.set_extra_reg(x86::k(s.extra_reg));
      if (s.inline_comment) e.set_inline_comment(s.text.c_str());
      err = e.emit_op_array(s.inst_id, ops, s.nops);
      break;
    }
    case StepKind::kNewLabel: {
      Label l;
      if (s.a == 0) l = e.new_label();
      else if (s.a == 1) l = e.new_named_label(s.text.c_str(), s.text.size(), LabelType::kGlobal);
      else if (s.a == 3) { uint32_t id = Globals::kInvalidId; err = code.new_label_id(Out(id)); ctx.labels.push_back(err == Error::kOk ? Label(id) : Label()); break; }
      else l = e.new_named_label(s.text.c_str(), s.text.size(), LabelType::kLocal, label_at(s.b).id());
      ctx.labels.push_back(l);
      if (!l.is_valid()) err = make_error(Error::kOutOfMemory);
      break;
    }
    case StepKind::kBind: err = e.bind(label_at(s.a)); break;
    case StepKind::kAlign: err = e.align(AlignMode(s.a), s.b); break;
    case StepKind::kEmbed: err = e.embed(s.data.data(), s.data.size()); break;
    case StepKind::kEmbedArray: err = e.embed_data_array(TypeId(s.a), s.data.data(), s.b, s.c); break;
    case StepKind::kEmbedLabel: err = e.embed_label(label_at(s.a), s.b); break;
    case StepKind::kEmbedLabelDelta: err = e.embed_label_delta(label_at(s.a), label_at(s.b), s.c); break;
    case StepKind::kEmbedConstPool: {
      Arena arena(1024);
      ConstPool pool(arena);
      size_t pos = 0;
      while (pos < s.data.size() && err == Error::kOk) {
        size_t sz = s.data[pos++];
        size_t off;
        err = pool.add(s.data.data() + pos, sz, Out(off));
        pos += sz;
      }
      if (err == Error::kOk) err = e.embed_const_pool(label_at(s.a), pool);
      break;
    }
    case StepKind::kNewSection: {
      Section* sec = nullptr;
      err = code.new_section(Out(sec), s.text.c_str(), s.text.size(), SectionFlags(s.a), s.b, s.d);
      ctx.sections.push_back(sec);
      break;
    }
    case StepKind::kSection: {
      Section* sec = s.a < ctx.sections.size() ? ctx.sections[s.a] : nullptr;
      err = sec ? e.section(sec) : make_error(Error::kInvalidSection);
      break;
    }
    case StepKind::kComment: err = e.comment(s.text.c_str(), s.text.size()); break;
  }
  ctx.results.push_back(err);
  if (err != Error::kOk && ctx.first_error_step == SIZE_MAX) ctx.first_error_step = i;
  return err;
}

void undo_failed_step(const Program& p, size_t i, ApplyCtx& ctx) {
  const Step& s = p.steps[i];
  if (s.kind == StepKind::kNewLabel && !ctx.labels.empty()) ctx.labels.pop_back();
  if (s.kind == StepKind::kNewSection && ctx.sections.size() > 1) ctx.sections.pop_back();
  if (!ctx.results.empty()) ctx.results.pop_back();
  if (ctx.first_error_step == i) ctx.first_error_step = SIZE_MAX;
}

Error apply_range(BaseEmitter& e, CodeHolder& code, const Program& p, size_t from, size_t to, ApplyCtx& ctx, bool stop_on_error) {
  Error first = Error::kOk;
  for (size_t i = from; i < to && i < p.steps.size(); i++) {
    Error err = apply_step(e, code, p, i, ctx);
    if (err != Error::kOk && first == Error::kOk) first = err;
    if (err != Error::kOk && stop_on_error) break;
  }
  return first;
}

// ---------------------------------------------------------------------------------------------------------------
// Snapshot
// ---------------------------------------------------------------------------------------------------------------

static void append_expr(std::string& out, const Expression* e, int depth, const std::vector<uint32_t>* remap = nullptr) {
  if (!e || depth > 8) { out += "<null>"; return; }
  char b[64];
  snprintf(b, sizeof b, "(op%u ", unsigned(e->op_type)); out += b;
  for (int i = 0; i < 2; i++) {
    switch (e->value_type[i]) {
      case ExpressionValueType::kConstant: snprintf(b, sizeof b, "c%llu ", (unsigned long long)e->value[i].constant); out += b; break;
      case ExpressionValueType::kLabel: { uint32_t id = e->value[i].label_id; if (remap && id < remap->size()) id = (*remap)[id]; snprintf(b, sizeof b, "L%u ", id); out += b; break; }
      case ExpressionValueType::kExpression: append_expr(out, e->value[i].expression, depth + 1, remap); break;
      default: out += "- "; break;
    }
  }
  out += ")";
}

std::string snapshot(const CodeHolder& code, bool ignore_orphan_labels) {
  std::string out;
  char b[256];
  // Orphans: anonymous labels that are neither bound nor referenced (e.g. the id a Builder obtained before the allocation
  // of its label node failed). With `ignore_orphan_labels` they are left out and the remaining labels are renumbered.
  std::vector<uint32_t> remap;
  size_t kept = 0;
  for (const LabelEntry& le : code.label_entries()) {
    bool orphan = ignore_orphan_labels && !le.is_bound() && le.unresolved_fixups() == nullptr && !le.has_name();
    remap.push_back(orphan ? 0xffffffffu : uint32_t(kept));
    if (!orphan) kept++;
  }
  snprintf(b, sizeof b, "arch=%u sections=%zu labels=%zu relocs=%zu unresolved=%zu base=%llx\n", unsigned(code.arch()), code.section_count(), kept, code.reloc_entries().size(),
           code.unresolved_fixup_count(), (unsigned long long)code.base_address());
  out += b;
  for (Section* s : code.sections()) {
    snprintf(b, sizeof b, "section %u '%s' flags=%x align=%u order=%d offset=%llx vsize=%llu size=%zu\n  ", s->section_id(), s->name(), unsigned(s->flags()), s->alignment(), s->order(),
             (unsigned long long)s->offset(), (unsigned long long)s->virtual_size(), s->buffer_size());
    out += b;
    const uint8_t* d = s->data();
    for (size_t i = 0; i < s->buffer_size(); i++) { snprintf(b, sizeof b, "%02x", d[i]); out += b; }
    out += "\n";
  }
  out += "order:";
  for (Section* s : code.sections_by_order()) { snprintf(b, sizeof b, " %u", s->section_id()); out += b; }
  out += "\n";
  uint32_t id = 0;
  for (const LabelEntry& le : code.label_entries()) {
    if (remap[id] == 0xffffffffu) { id++; continue; }
    snprintf(b, sizeof b, "label %u type=%u flags=%x ", remap[id], unsigned(le.label_type()), unsigned(le.label_flags())); out += b;
    if (le.is_bound()) { snprintf(b, sizeof b, "bound sec=%u off=%llu", le.section_id(), (unsigned long long)code.label_offset(id)); out += b; }
    else { size_t n = 0; for (Fixup* f = le.unresolved_fixups(); f && n < 100000; f = f->next) n++; snprintf(b, sizeof b, "unbound fixups=%zu", n); out += b; }
    if (le.has_name()) { out += " name="; out.append(le.name(), le.name_size()); }
    if (le.has_parent()) { snprintf(b, sizeof b, " parent=%u", le.parent_id() < remap.size() ? remap[le.parent_id()] : le.parent_id()); out += b; }
    out += "\n";
    id++;
  }
  for (RelocEntry* re : code.reloc_entries()) {
    const OffsetFormat& f = re->format();
    snprintf(b, sizeof b, "reloc %u type=%u fmt=(t%u f%u r%u vs%u vo%u bc%u bs%u dl%u) src=%u:%llu dst=%u payload=", re->id(), unsigned(re->reloc_type()), unsigned(f.type()), f.flags(), f.region_size(),
             f.value_size(), f.value_offset(), f.imm_bit_count(), f.imm_bit_shift(), f.imm_discard_lsb(), re->source_section_id(), (unsigned long long)re->source_offset(), re->target_section_id());
    out += b;
    if (re->reloc_type() == RelocType::kExpression) append_expr(out, re->payload_as_expression(), 0, &remap);
    else { snprintf(b, sizeof b, "%llx", (unsigned long long)re->payload()); out += b; }
    out += "\n";
  }
  if (code.has_address_table_section()) { snprintf(b, sizeof b, "addrtab section=%u\n", code.address_table_section()->section_id()); out += b; }
  return out;
}

uint64_t snapshot_hash(const CodeHolder& code) { std::string s = snapshot(code); return sim::hash_bytes(s.data(), s.size()); }

// ---------------------------------------------------------------------------------------------------------------
// Compiler functions
// ---------------------------------------------------------------------------------------------------------------

void RecordingHandler::handle_error(Error err, const char* message, BaseEmitter* origin) {
  (void)message; (void)origin;
  if (first == Error::kOk) first = err;
  count++;
  if (throw_on_error) throw err;
}

#define CK(stmt) do { stmt; if (eh.first != Error::kOk) return false; } while (0)

extern "C" uint64_t gen_callee_add3(uint64_t a, uint64_t b, uint64_t c) { return a + 2 * b + 3 * c; }

bool build_x86_function(x86::Compiler& cc, const FuncParams& fp, RecordingHandler& eh) {
  Rng r(sim::mix64(fp.seed ^ 0xF00D));
  bool is64 = cc.is_64bit();
  FuncNode* fn = cc.add_func(is64 ? FuncSignature::build<uint64_t, uint64_t, uint64_t>() : FuncSignature::build<uint32_t, uint32_t, uint32_t>());
  if (!fn || eh.first != Error::kOk) return false;
  std::vector<x86::Gp> vals;
  x86::Gp a0 = cc.new_gp_ptr("a0"), a1 = cc.new_gp_ptr("a1");
  if (eh.first != Error::kOk) return false;
  fn->set_arg(0, a0); fn->set_arg(1, a1);
  vals.push_back(a0); vals.push_back(a1);
  uint32_t live = fp.live_values < 2 ? 2 : fp.live_values;
  for (uint32_t i = 2; i < live; i++) {
    x86::Gp v = cc.new_gp_ptr("v%u", i);
    if (eh.first != Error::kOk) return false;
    CK(cc.mov(v, vals[r.below(vals.size())]));
    CK(cc.add(v, int32_t(r.below(1000))));
    vals.push_back(v);
  }
  auto any = [&]() -> x86::Gp& { return vals[r.below(vals.size())]; };
  for (uint32_t i = 0; i < fp.undef_reads; i++) { x86::Gp u = cc.new_gp64("undef%u", i); if (eh.first != Error::kOk) return false; CK(cc.add(any(), u)); }
  x86::Mem stack;
  if (fp.stack) { stack = cc.new_stack(uint32_t(16 + 8 * r.below(8)), 16); if (eh.first != Error::kOk) return false; CK(cc.mov(stack, any())); }
  x86::Vec vec0, vec1;
  bool avx = fp.vec && fp.avx;
  if (avx) fn->frame().set_avx_enabled();
  std::vector<x86::Vec> vec_extra;
  if (fp.vec) {
    vec0 = cc.new_xmm("x0"); vec1 = cc.new_xmm("x1"); if (eh.first != Error::kOk) return false;
    if (avx) { CK(cc.vpxor(vec0, vec0, vec0)); CK(cc.vmovd(vec1, any().r32())); CK(cc.vpaddd(vec0, vec0, vec1)); CK(cc.vshufps(vec0, vec0, vec1, Imm(uint32_t(fp.seed) & 0xff))); }   // (four operands)
    else { CK(cc.pxor(vec0, vec0)); CK(cc.movd(vec1, any().r32())); CK(cc.paddd(vec0, vec1)); }
    for (uint32_t i = 0; i < fp.vec_live; i++) {
      x86::Vec v = cc.new_xmm("xl%u", i); if (eh.first != Error::kOk) return false;
      if (avx) { CK(cc.vmovd(v, any().r32())); CK(cc.vpaddd(v, v, vec1)); } else { CK(cc.movd(v, any().r32())); CK(cc.paddd(v, vec1)); }
      vec_extra.push_back(v);
    }
  }
  auto fold_vectors = [&]() -> bool {
    // every additional vector value is consumed at the end of the function, so all of them are live across its body
    if (vec_extra.empty()) return true;
    for (auto& v : vec_extra) { if (avx) CK(cc.vpaddd(vec0, vec0, v)); else CK(cc.paddd(vec0, v)); }
    x86::Gp t = cc.new_gp32("vfold"); if (eh.first != Error::kOk) return false;
    if (avx) CK(cc.vmovd(t, vec0)); else CK(cc.movd(t, vec0));
    CK(cc.add(vals[0].r32(), t));
    return true;
  };

  for (uint32_t b = 0; b < fp.blocks; b++) {
    switch (r.below(4)) {
      case 0: {   // diamond
        Label l_else = cc.new_label(), l_end = cc.new_label();
        if (eh.first != Error::kOk) return false;
        CK(cc.cmp(any(), any()));
        CK(cc.jl(l_else));
        CK(cc.add(any(), any()));
        CK(cc.jmp(l_end));
        CK(cc.bind(l_else));
        CK(cc.sub(any(), any()));
        CK(cc.bind(l_end));
        break;
      }
      case 1: {   // counted loop
        Label l_top = cc.new_label();
        x86::Gp cnt = cc.new_gp32("cnt");
        if (eh.first != Error::kOk) return false;
        CK(cc.mov(cnt, int32_t(1 + r.below(5))));
        CK(cc.bind(l_top));
        CK(cc.add(any(), any()));
        CK(cc.xor_(any(), any()));
        CK(cc.dec(cnt));
        CK(cc.jnz(l_top));
        break;
      }
      case 2: {   // arithmetic chain with fixed registers (shift by cl, imul)
        x86::Gp sh = cc.new_gp32("sh");
        if (eh.first != Error::kOk) return false;
        CK(cc.mov(sh, int32_t(r.below(31))));
        CK(cc.shl(any(), sh.r8()));
        CK(cc.imul(any(), any()));
        if (fp.stack) { CK(cc.add(any(), stack)); CK(cc.mov(stack, any())); }
        break;
      }
      default: {
        if (fp.consts) {
          uint64_t c = r.next();
          x86::Mem m = cc.new_const((fp.global_consts && r.chance(1, 2)) ? ConstPoolScope::kGlobal : ConstPoolScope::kLocal, &c, is64 ? 8 : 4);
          // (a failed new_const() is reported through the operand it returns: a reset, i.e. "none", memory operand)
          if (eh.first != Error::kOk || !m.has_base_label()) return false;
          CK(cc.add(any(), m));
        }
        if (fp.vec) { if (avx) { CK(cc.vpaddd(vec0, vec0, vec1)); CK(cc.vmovd(any().r32(), vec0)); } else { CK(cc.paddd(vec0, vec1)); CK(cc.movd(any().r32(), vec0)); } }
        break;
      }
    }
  }

  if (fp.calls && is64) {
    InvokeNode* inv = nullptr;
    x86::Gp ret = cc.new_gp64("ret");
    if (eh.first != Error::kOk) return false;
    CK(cc.invoke(Out(inv), Imm(uint64_t(uintptr_t(&gen_callee_add3))), FuncSignature::build<uint64_t, uint64_t, uint64_t, uint64_t>()));
    if (!inv) return false;
    inv->set_arg(0, any()); inv->set_arg(1, any()); inv->set_arg(2, any()); inv->set_ret(0, ret);
    CK(cc.add(vals[0], ret));
    // a vector value that lives across the call has to be spilled and reloaded by the allocator
    if (fp.vec) { x86::Gp t = cc.new_gp32("vt"); if (eh.first != Error::kOk) return false; if (avx) { CK(cc.vpaddd(vec0, vec0, vec1)); CK(cc.vmovd(t, vec0)); } else { CK(cc.paddd(vec0, vec1)); CK(cc.movd(t, vec0)); } CK(cc.add(vals[0].r32(), t)); }
  }

  if (fp.jump_table) {
    uint32_t ncases = uint32_t(2 + r.below(3));
    Label l_table = cc.new_label(), l_end = cc.new_label();
    std::vector<Label> cases;
    for (uint32_t i = 0; i < ncases; i++) cases.push_back(cc.new_label());
    x86::Gp idx = cc.new_gp_ptr("idx"), target = cc.new_gp_ptr("target"), offset = cc.new_gp_ptr("offset");
    if (eh.first != Error::kOk) return false;
    CK(cc.mov(idx, vals[1]));
    CK(cc.and_(idx, int32_t(ncases == 4 ? 3 : 1)));
    CK(cc.lea(offset, x86::ptr(l_table)));
    if (is64) CK(cc.movsxd(target, x86::dword_ptr(offset, idx, 2))); else CK(cc.mov(target, x86::dword_ptr(offset, idx, 2)));
    CK(cc.add(target, offset));
    JumpAnnotation* ann = cc.new_jump_annotation();
    if (!ann || eh.first != Error::kOk) return false;
    for (auto& l : cases) if (ann->add_label(l) != Error::kOk) return false;
    CK(cc.jmp(target, ann));
    for (uint32_t i = 0; i < ncases; i++) { CK(cc.bind(cases[i])); CK(cc.add(vals[0], int32_t(i * 7 + 1))); CK(cc.jmp(l_end)); }
    CK(cc.bind(l_end));
    // the table itself lives after the function body
    if (!fold_vectors()) return false;
    x86::Gp result = vals[0];
    for (size_t i = 1; i < vals.size(); i++) CK(cc.add(result, vals[i]));
    CK(cc.ret(result));
    CK(cc.end_func());
    CK(cc.bind(l_table));
    for (auto& l : cases) CK(cc.embed_label_delta(l, l_table, 4));
    return true;
  }

  if (!fold_vectors()) return false;
  x86::Gp result = vals[0];
  for (size_t i = 1; i < vals.size(); i++) CK(cc.add(result, vals[i]));
  CK(cc.ret(result));
  CK(cc.end_func());
  return true;
}

bool build_a64_function(a64::Compiler& cc, const FuncParams& fp, RecordingHandler& eh) {
  Rng r(sim::mix64(fp.seed ^ 0xA64));
  FuncNode* fn = cc.add_func(FuncSignature::build<uint64_t, uint64_t, uint64_t>());
  if (!fn || eh.first != Error::kOk) return false;
  std::vector<a64::Gp> vals;
  a64::Gp a0 = cc.new_gp64("a0"), a1 = cc.new_gp64("a1");
  if (eh.first != Error::kOk) return false;
  fn->set_arg(0, a0); fn->set_arg(1, a1);
  vals.push_back(a0); vals.push_back(a1);
  uint32_t live = fp.live_values < 2 ? 2 : fp.live_values;
  for (uint32_t i = 2; i < live; i++) {
    a64::Gp v = cc.new_gp64("v%u", i);
    if (eh.first != Error::kOk) return false;
    CK(cc.add(v, vals[r.below(vals.size())], int32_t(r.below(1000))));
    if ((i & 3) == 3) CK(cc.madd(v, v, vals[r.below(vals.size())], vals[r.below(vals.size())]));   // (four operands)
    vals.push_back(v);
  }
  auto any = [&]() -> a64::Gp& { return vals[r.below(vals.size())]; };
  for (uint32_t i = 0; i < fp.undef_reads; i++) { a64::Gp u = cc.new_gp64("undef%u", i); if (eh.first != Error::kOk) return false; CK(cc.add(any(), any(), u)); }
  a64::Mem stack;
  if (fp.stack) { stack = cc.new_stack(uint32_t(16 + 8 * r.below(8)), 16); if (eh.first != Error::kOk) return false; CK(cc.str(any(), stack)); }
  for (uint32_t b = 0; b < fp.blocks; b++) {
    switch (r.below(3)) {
      case 0: {
        Label l_else = cc.new_label(), l_end = cc.new_label();
        if (eh.first != Error::kOk) return false;
        CK(cc.cmp(any(), any()));
        CK(cc.b_lt(l_else));
        CK(cc.add(any(), any(), any()));
        CK(cc.b(l_end));
        CK(cc.bind(l_else));
        CK(cc.sub(any(), any(), any()));
        CK(cc.bind(l_end));
        break;
      }
      case 1: {
        Label l_top = cc.new_label();
        a64::Gp cnt = cc.new_gp64("cnt");
        if (eh.first != Error::kOk) return false;
        CK(cc.mov(cnt, int32_t(1 + r.below(5))));
        CK(cc.bind(l_top));
        CK(cc.eor(any(), any(), any()));
        CK(cc.subs(cnt, cnt, 1));
        CK(cc.b_ne(l_top));
        break;
      }
      default: {
        CK(cc.mul(any(), any(), any()));
        CK(cc.and_(any(), any(), Imm(uint64_t(0xFFFF) << r.below(40))));   // logical (bit-mask) immediate
        if (fp.stack) { a64::Gp t = cc.new_gp64("t"); if (eh.first != Error::kOk) return false; CK(cc.ldr(t, stack)); CK(cc.add(any(), any(), t)); }
        break;
      }
    }
  }
  a64::Gp result = vals[0];
  for (size_t i = 1; i < vals.size(); i++) CK(cc.add(result, result, vals[i]));
  CK(cc.ret(result));
  CK(cc.end_func());
  return true;
}

} // namespace gen
