#include "gen/a64forms.h"
#include <asmjit-testing/tests/asmjit_test_assembler.h>   // the shadowed header (gen/shadow precedes the repository)

bool test_aarch64_assembler(const TestSettings& settings) noexcept;   // asmjit_test_assembler_a64.cpp

namespace gen {

static std::vector<A64Form> g_forms;
static bool g_harvested = false;

void a64_harvest_record(uint32_t inst_id, uint32_t options, const asmjit::Operand_* ops, size_t op_count, const char* text) {
  A64Form f{};
  f.inst_id = inst_id; f.options = options; f.op_count = uint32_t(op_count > 6 ? 6 : op_count);
  for (uint32_t i = 0; i < f.op_count; i++) f.ops[i] = ops[i];
  f.text = text ? text : "";
  g_forms.push_back(f);
}

const std::vector<A64Form>& a64_forms() {
  if (!g_harvested) {
    g_harvested = true;
    TestSettings settings{false, false};
    (void)test_aarch64_assembler(settings);
  }
  return g_forms;
}

} // namespace gen
