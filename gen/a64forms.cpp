#include "gen/a64forms.h"
#include <asmjit-testing/tests/asmjit_test_assembler.h>   // the shadowed header (gen/shadow precedes the repository)

bool test_aarch64_assembler(const TestSettings& settings) noexcept;   // asmjit_test_assembler_a64.cpp

namespace gen {

static std::vector<A64Form> g_forms;
static bool g_harvested = false;

void a64_harvest_record(uint32_t inst_id, uint32_t options, const asmjit::Operand_* ops, size_t op_count, const char* text) {
  A64Form f{};
  f.inst_id = inst_id; f.options = options; f.op_count = uint32_t(op_count > 6 ? 6 : op_count);
  for (uint32_t i = 0; i < f.op_count; i++) f.ops[i] = ops[i];
  f.text = text ? text : "";
  g_forms.push_back(f);
}

// Instructions the repository's test does not mention (move-wide, acquire/release and exclusive loads and stores,
// atomic memory operations, hints, ...). Each form is kept only if the a64::Assembler accepts it as written here.
static void supplement() {
  using namespace asmjit;
  using namespace asmjit::a64;
  namespace I = asmjit::a64::Inst;
  CodeHolder code;
  if (code.init(Environment(Arch::kAArch64)) != Error::kOk) return;
  Assembler as(&code);
  auto add = [&](uint32_t id, const char* text, std::initializer_list<Operand> ops) {
    Operand_ o[6]; size_t n = 0;
    for (const Operand& x : ops) if (n < 6) o[n++] = x;
    if (as.emit_op_array(id, reinterpret_cast<const Operand*>(o), n) == Error::kOk) a64_harvest_record(id, 0, o, n, text);
  };
  static const uint32_t movw[] = {I::kIdMovz, I::kIdMovk, I::kIdMovn};
  for (uint32_t id : movw) {
    add(id, "movw(w1, 0x1234)", {w1, Imm(0x1234)});
    add(id, "movw(x1, 0x1234)", {x1, Imm(0x1234)});
    add(id, "movw(w1, 0x1234, lsl(16))", {w1, Imm(0x1234), Imm(16)});
    add(id, "movw(x1, 0xffff, lsl(32))", {x1, Imm(0xffff), Imm(32)});
    add(id, "movw(x2, 1, lsl(48))", {x2, Imm(1), Imm(48)});
  }
  // literal (label based) loads: the label is re-selected when the form is used
  { Label lit = as.new_label();
    add(I::kIdLdr, "ldr(x1, ptr(L))", {x1, ptr(lit)}); add(I::kIdLdr, "ldr(w1, ptr(L, 8))", {w1, ptr(lit, 8)}); add(I::kIdLdrsw, "ldrsw(x1, ptr(L))", {x1, ptr(lit)});
    add(I::kIdLdr_v, "ldr(q1, ptr(L))", {q1, ptr(lit)}); add(I::kIdLdr_v, "ldr(d1, ptr(L, 16))", {d1, ptr(lit, 16)}); add(I::kIdAdr, "adr(x1, L)", {x1, lit}); }
  add(I::kIdRet, "ret(x30)", {x30}); add(I::kIdBlr, "blr(x3)", {x3}); add(I::kIdNop, "nop()", {});
  add(I::kIdSev, "sev()", {}); add(I::kIdSevl, "sevl()", {}); add(I::kIdWfe, "wfe()", {}); add(I::kIdWfi, "wfi()", {}); add(I::kIdYield, "yield()", {});
  add(I::kIdHint, "hint(5)", {Imm(5)});
  static const uint32_t ld1[] = {I::kIdLdar, I::kIdLdarb, I::kIdLdarh, I::kIdLdaxr, I::kIdLdaxrb, I::kIdLdaxrh, I::kIdStlr, I::kIdStlrb, I::kIdStlrh, I::kIdStllr, I::kIdStllrb, I::kIdStllrh};
  for (uint32_t id : ld1) { add(id, "ldst_acqrel(w1, ptr(x2))", {w1, ptr(x2)}); add(id, "ldst_acqrel(x1, ptr(x2))", {x1, ptr(x2)}); }
  static const uint32_t stx[] = {I::kIdStlxr, I::kIdStlxrb, I::kIdStlxrh};
  for (uint32_t id : stx) { add(id, "stlxr(w1, w2, ptr(x3))", {w1, w2, ptr(x3)}); add(id, "stlxr(w1, x2, ptr(x3))", {w1, x2, ptr(x3)}); }
  add(I::kIdLdaxp, "ldaxp(w1, w2, ptr(x3))", {w1, w2, ptr(x3)}); add(I::kIdLdaxp, "ldaxp(x1, x2, ptr(x3))", {x1, x2, ptr(x3)});
  add(I::kIdStlxp, "stlxp(w1, w2, w3, ptr(x4))", {w1, w2, w3, ptr(x4)}); add(I::kIdStlxp, "stlxp(w1, x2, x3, ptr(x4))", {w1, x2, x3, ptr(x4)});
  add(I::kIdStnp, "stnp(x1, x2, ptr(x3, 16))", {x1, x2, ptr(x3, 16)}); add(I::kIdStnp, "stnp(w1, w2, ptr(x3, -8))", {w1, w2, ptr(x3, -8)});
  static const uint32_t stop[] = {I::kIdStadd, I::kIdStaddl, I::kIdStaddb, I::kIdStaddh, I::kIdStclr, I::kIdSteor, I::kIdStset, I::kIdStsmax, I::kIdStsmin, I::kIdStumax, I::kIdStumin, I::kIdStclrl, I::kIdSteorl, I::kIdStsetl};
  for (uint32_t id : stop) { add(id, "st_atomic(w1, ptr(x2))", {w1, ptr(x2)}); add(id, "st_atomic(x1, ptr(x2))", {x1, ptr(x2)}); }
  static const uint32_t swp[] = {I::kIdSwp, I::kIdSwpa, I::kIdSwpal, I::kIdSwpl, I::kIdSwpb, I::kIdSwph, I::kIdSwpab, I::kIdSwpalh};
  for (uint32_t id : swp) { add(id, "swp(w1, w2, ptr(x3))", {w1, w2, ptr(x3)}); add(id, "swp(x1, x2, ptr(x3))", {x1, x2, ptr(x3)}); }
}

const std::vector<A64Form>& a64_forms() {
  if (!g_harvested) {
    g_harvested = true;
    TestSettings settings{false, false};
    (void)test_aarch64_assembler(settings);
    supplement();
  }
  return g_forms;
}

} // namespace gen
