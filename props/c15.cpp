// C15 - Allocation failure yields an error - never a crash, leak or wrong code.
//
// For a workload instance: a clean run records the golden output and the number of arena (H1), heap (SimHeap) and
// virtual-memory (SimVM) requests; then the workload is rerun with request k of each kind failing - for every k in the
// thorough tier (fault enumeration), for a seeded sample of k in the quick tier - plus multi-fault patterns. After each
// faulted run one of three aftermaths follows: destroy, reset+init+redo, reinit+redo.
#include "sim/sim.h"
#include "gen/prog.h"
#include "props/jitmodel.h"

#include <asmjit/core.h>
#include <asmjit/x86.h>
#include <asmjit/a64.h>

#include <memory>
#include <string>
#include <vector>

using namespace asmjit;
using sim::Op;
using sim::Plan;
using sim::Rng;

namespace {

enum WorkloadKind { kWAsm = 0, kWBuilder, kWCompiler, kWJit, kWChoreography, kWContainers, kWorkloadCount };
const char* const kWorkloadNames[kWorkloadCount] = {"assembler", "builder", "compiler", "jit-install", "attach-choreography", "containers"};

enum OpKind : uint16_t { kWorkload, kOpCount };
const char* op_name(uint16_t) { return "workload"; }

struct Spec {
  int kind;
  gen::Target target;
  uint64_t seed;
  size_t steps;
  uint32_t nfuncs;
  bool logger, validate;
  bool static_arena;
  int prehistory;         // 0 fresh objects; 1 / 2: the objects were used before and recycled with reset(kSoft)+init / reinit()
  uint32_t jit_options;   // jit-install: bit 0 dual mapping, 1 multiple pools, 2 fill unused, 3 immediate release, 4 small blocks
};

std::unique_ptr<JitRuntime> make_runtime(const Spec& s) {
  JitAllocator::CreateParams params;
  if (s.jit_options & 1) params.options |= JitAllocatorOptions::kUseDualMapping;
  if (s.jit_options & 2) params.options |= JitAllocatorOptions::kUseMultiplePools;
  if (s.jit_options & 4) params.options |= JitAllocatorOptions::kFillUnusedMemory;
  if (s.jit_options & 8) params.options |= JitAllocatorOptions::kImmediateRelease;
  if (s.jit_options & 16) params.block_size = 65536;
  return std::unique_ptr<JitRuntime>(new JitRuntime(&params));
}

Spec spec_from(const Plan& p) {
  Spec s;
  s.kind = int(p.get("workload", 0));
  s.target = gen::Target(p.get("target", 1));
  s.seed = uint64_t(p.get("wseed", 1));
  s.steps = size_t(p.get("steps", 20));
  s.nfuncs = uint32_t(p.get("nfuncs", 1));
  s.logger = p.get("logger", 0) != 0;
  s.validate = p.get("validate", 0) != 0;
  s.static_arena = p.get("static", 0) != 0;
  s.jit_options = uint32_t(p.get("jit_options", 0));
  s.prehistory = int(p.get("prehistory", 0));
  if (s.kind == kWJit) s.target = gen::Target::kX64;
  return s;
}

// The objects involved in one workload; they survive the faulted run for the aftermath.
struct Env {
  std::unique_ptr<uint8_t[]> static_buf;
  std::unique_ptr<CodeHolder> code;
  std::unique_ptr<x86::Assembler> xa; std::unique_ptr<x86::Builder> xb; std::unique_ptr<x86::Compiler> xc;
  std::unique_ptr<a64::Assembler> aa; std::unique_ptr<a64::Builder> ab; std::unique_ptr<a64::Compiler> ac;
  std::unique_ptr<StringLogger> logger;
  gen::RecordingHandler eh;
  std::unique_ptr<JitRuntime> rt;
  std::vector<void*> installed;
  // containers workload: one arena shared by two vectors, a constant pool and raw requests; a heap string
  std::unique_ptr<Arena> arena;
  ArenaVector<uint64_t> vec64; ArenaVector<uint32_t> vec32;
  std::unique_ptr<ConstPool> pool;
  String str;
  bool arena_used = false;

  explicit Env(const Spec& s) {
    if (s.static_arena) { static_buf.reset(new uint8_t[4096]); code.reset(new CodeHolder(Span<uint8_t>(static_buf.get(), 4096))); }
    else code.reset(new CodeHolder());
    xa.reset(new x86::Assembler()); xb.reset(new x86::Builder()); xc.reset(new x86::Compiler());
    aa.reset(new a64::Assembler()); ab.reset(new a64::Builder()); ac.reset(new a64::Compiler());
    logger.reset(new StringLogger());
    if (s.kind == kWJit) rt = make_runtime(s);
    if (s.kind == kWContainers) arena.reset(new Arena(1024));
  }
  ~Env() { vec64.reset(); vec32.reset(); pool.reset(); }
  BaseEmitter& emitter(gen::Target t, int which) {
    if (t == gen::Target::kA64) return which == 0 ? static_cast<BaseEmitter&>(*aa) : which == 1 ? static_cast<BaseEmitter&>(*ab) : static_cast<BaseEmitter&>(*ac);
    return which == 0 ? static_cast<BaseEmitter&>(*xa) : which == 1 ? static_cast<BaseEmitter&>(*xb) : static_cast<BaseEmitter&>(*xc);
  }
};

struct Outcome {
  bool completed = false;     // every call returned kOk
  Error first_error = Error::kOk;
  std::string output;         // golden-comparable output
  std::string output_code;    // the same without anonymous labels that are neither bound nor referenced (see retry aftermath)
  uint64_t exec_result = 0;
  std::vector<Error> step_results;   // assembler / builder workloads: result of every program step
};

gen::FuncParams func_params(const Spec& s, uint32_t i) {
  gen::FuncParams fp;
  Rng r(sim::mix64(s.seed + i * 104729));
  fp.seed = r.next();
  fp.live_values = uint32_t(2 + r.below(r.chance(1, 3) ? 30 : 8));
  fp.blocks = uint32_t(r.below(4));
  fp.calls = r.chance(1, 2); fp.jump_table = r.chance(1, 2); fp.consts = r.chance(1, 2); fp.stack = r.chance(1, 2); fp.vec = r.chance(1, 2); fp.avx = r.chance(1, 2); fp.vec_live = r.chance(1, 3) ? uint32_t(7 + r.below(14)) : 0;
  if (s.kind == kWCompiler && r.chance(1, 3)) fp.undef_reads = uint32_t(1 + r.below(24));   // (kWJit executes its function)
  return fp;
}

#define STEP(expr) do { Error _e = (expr); if (_e != Error::kOk) { out.first_error = _e; return out; } if (env.eh.first != Error::kOk) { SIM_CHECK(false, "c15:error-only-reported-to-handler", "%s returned kOk although error %u was reported to the error handler while it ran: the caller that looks at return values continues with incomplete code", #expr, unsigned(env.eh.first)); out.first_error = env.eh.first; return out; } } while (0)

// Runs the workload on the objects in `env`. The holder must be initialised by the caller? No: init/attach are part
// of the workload so that their allocation requests are swept as well; `phase` 0 = full run (init + attach + work),
// 1 = redo after reinit() (holder initialised, emitters attached as far as they still are).
Outcome run_workload(const Spec& s, Env& env, int phase, bool retry_failed_call = false, const Outcome* golden = nullptr) {
  Outcome out;
  CodeHolder& code = *env.code;
  const uint64_t fired_at_start = sim::run_faults_fired_total();
  auto faults_fired_here = [&]() { return sim::run_faults_fired_total() > fired_at_start; };
  env.eh.reset();
  (void)env.logger->content().clear();
  if (phase == 0 && s.prehistory && s.kind != kWChoreography) {
    // The objects have a past: another program was assembled on them and they were recycled, so the arena starts with
    // retained blocks, reusable slots and a current block that is partly used. (Part of the workload: swept like the rest.)
    STEP(code.init(Environment(gen::arch_of(s.target))));
    BaseEmitter& pe = env.emitter(s.target, 0);
    STEP(code.attach(&pe));
    Rng pr(sim::mix64(s.seed ^ 0x70AD));
    gen::GenOptions po; po.steps = 60 + size_t(s.seed % 120);
    gen::Program pp = gen::generate_program(pr, s.target, po);
    gen::ApplyCtx pctx;
    for (size_t i = 0; i < pp.steps.size(); i++) { Error err = gen::apply_step(pe, code, pp, i, pctx); if (err == Error::kOutOfMemory || (err != Error::kOk && faults_fired_here())) { out.first_error = err; return out; } env.eh.reset(); }
    if (s.prehistory == 1) code.reset(ResetPolicy::kSoft); else STEP(code.reinit());
    sim::count("c15.probe.workload_on_recycled_objects");
  }
  if (phase == 0 && !code.is_initialized()) {
    STEP(code.init(Environment(gen::arch_of(s.target))));
  }
  code.set_error_handler(&env.eh);
  code.set_logger(s.logger ? env.logger.get() : nullptr);

  auto attach = [&](BaseEmitter& e) -> Error {
    if (e.is_initialized()) return Error::kOk;
    Error err = code.attach(&e);
    if (err == Error::kOk) { if (s.validate) e.add_diagnostic_options(DiagnosticOptions::kValidateAssembler | DiagnosticOptions::kValidateIntermediate); else e.clear_diagnostic_options(DiagnosticOptions::kValidateAssembler | DiagnosticOptions::kValidateIntermediate); }
    return err;
  };

  // "Every object involved can still be ... reused": a call that reported the failure must not leave its one-shot state
  // (instruction options, extra register, inline comment) armed for whatever instruction is emitted next.
  auto check_one_shot_cleared = [&](BaseEmitter& e, Error err, size_t step) {
    SIM_CHECK(e.inst_options() == InstOptions::kNone && !e.has_extra_reg() && e.inline_comment() == nullptr, "c15:failed-call-keeps-one-shot-state",
              "step %zu failed with error %u after an allocation failure and left one-shot state behind: options=%#x extra_reg=%d comment=%d (the next instruction would inherit it)", step, unsigned(err), unsigned(e.inst_options()),
              int(e.has_extra_reg()), int(e.inline_comment() != nullptr));
  };

  switch (s.kind) {
    case kWAsm: case kWBuilder: {
      BaseEmitter& e = env.emitter(s.target, s.kind == kWAsm ? 0 : 1);
      STEP(attach(e));
      Rng r(sim::mix64(s.seed));
      gen::GenOptions o; o.steps = s.steps;
      gen::Program p = gen::generate_program(r, s.target, o);
      gen::ApplyCtx ctx;
      uint64_t fired_seen = sim::run_faults_fired_total();
      for (size_t i = 0; i < p.steps.size(); i++) {
        Error err = gen::apply_step(e, code, p, i, ctx);
        // Programs are generated to be valid; a step that fails in the clean run fails identically in every run and is
        // simply part of the golden output.
        if (err != Error::kOk && (err == Error::kOutOfMemory || faults_fired_here())) {
          check_one_shot_cleared(e, err, i);
          if (retry_failed_call && golden && sim::run_faults_fired_total() == fired_seen && i < golden->step_results.size() && golden->step_results[i] != err) {
            // no allocation failed since the call was repeated, yet it fails (differently from the failure-free run)
            sim::fail("c15:repeated-call-fails", "step %zu failed with error %u when an allocation failed; repeated once memory was available it fails with error %u (the failure-free run gives %u)", i, unsigned(out.first_error), unsigned(err),
                      unsigned(golden->step_results[i]));
          }
          if (retry_failed_call && sim::run_faults_fired_total() > fired_seen) {
            // "repeating the work once memory is available": the failed call is simply made again
            fired_seen = sim::run_faults_fired_total();
            out.first_error = err;
            gen::undo_failed_step(p, i, ctx);
            env.eh.reset();
            i--;
            continue;
          }
          out.first_error = err; return out;
        }
        env.eh.reset();
      }
      out.step_results = ctx.results;
      if (s.kind == kWBuilder) STEP(e.finalize());
      STEP(code.flatten());
      Error rerr = code.resolve_cross_section_fixups();
      if (rerr == Error::kOutOfMemory) { out.first_error = rerr; return out; }
      env.eh.reset();
      out.output = gen::snapshot(code);
      out.output_code = gen::snapshot(code, true);
      // relocate to a fixed base and copy out
      Error relerr = code.relocate_to_base(0x10000000ull);
      if (relerr == Error::kOutOfMemory && retry_failed_call) {
        // relocate_to_base() allocates (the address table) before it patches anything: a call that failed for lack of memory
        // has done nothing yet and is simply made again
        out.first_error = relerr; env.eh.reset();
        relerr = code.relocate_to_base(0x10000000ull);
        sim::count("c15.probe.relocation_repeated_after_failure");
      }
      if (relerr == Error::kOutOfMemory) { out.first_error = relerr; return out; }
      env.eh.reset();
      size_t size = code.code_size();
      std::vector<uint8_t> img(size + 16, 0xA5);
      Error cerr = code.copy_flattened_data(img.data(), size, CopySectionFlags::kPadSectionBuffer | CopySectionFlags::kPadTargetBuffer);
      char b[64]; snprintf(b, sizeof b, "relocate=%u copy=%u size=%zu\n", unsigned(relerr), unsigned(cerr), size); out.output += b;
      out.output += "image:"; for (size_t i = 0; i < size; i++) { snprintf(b, sizeof b, "%02x", img[i]); out.output += b; }
      for (size_t i = size; i < img.size(); i++) SIM_CHECK(img[i] == 0xA5, "c15:copy-out-of-bounds", "copy_flattened_data wrote past the destination");
      out.completed = true;
      return out;
    }
    case kWCompiler: case kWJit: {
      BaseEmitter& e = env.emitter(s.target, 2);
      STEP(attach(e));
      uint32_t n = s.kind == kWJit ? 1 : s.nfuncs;
      for (uint32_t i = 0; i < n; i++) {
        gen::FuncParams fp = func_params(s, i);
        bool ok = s.target == gen::Target::kA64 ? gen::build_a64_function(static_cast<a64::Compiler&>(e), fp, env.eh) : gen::build_x86_function(static_cast<x86::Compiler&>(e), fp, env.eh);
        if (!ok) { out.first_error = env.eh.first != Error::kOk ? env.eh.first : make_error(Error::kOutOfMemory); return out; }
      }
      {
        Error ferr = e.finalize();
        // whether finalize() failed or not: afterwards no virtual register may reference memory of the register allocator
        // (its arena is reset when the pass returns; set_stack_size() and a later compilation would follow the pointer)
        for (VirtReg* v : static_cast<BaseCompiler&>(e).virt_regs()) SIM_CHECK(!v->has_work_reg(), "c15:dangling-work-reg", "finalize() returned %u and virtual register %u still references a work register of the (reset) allocator arena", unsigned(ferr), v->id());
        STEP(ferr);
      }
      out.output = gen::snapshot(code);
      if (s.kind == kWJit) {
        typedef uint64_t (*Fn)(uint64_t, uint64_t);
        Fn fn = nullptr;
        size_t before = env.rt->allocator().statistics().allocation_count();
        Error err = env.rt->add(&fn, &code);
        if (err != Error::kOk) {
          SIM_CHECK(fn == nullptr, "c15:failed-add-returned-pointer", "JitRuntime::add failed with %u but returned a pointer", unsigned(err));
          SIM_CHECK(env.rt->allocator().statistics().allocation_count() == before, "c15:failed-add-leaks-span", "JitRuntime::add failed with %u but left an allocation accounted (%zu -> %zu)", unsigned(err), before,
                    env.rt->allocator().statistics().allocation_count());
          out.first_error = err; return out;
        }
        env.installed.push_back(reinterpret_cast<void*>(fn));
        // the installed bytes equal the relocated image
        size_t size = code.code_size();
        std::vector<uint8_t> img(size);
        Error cerr = code.copy_flattened_data(img.data(), size, CopySectionFlags::kPadSectionBuffer);
        SIM_CHECK(cerr == Error::kOk, "c15:copy-failed", "copy_flattened_data failed: %u", unsigned(cerr));
        SIM_CHECK(memcmp(reinterpret_cast<void*>(fn), img.data(), size) == 0, "c15:installed-image-differs", "bytes installed by JitRuntime::add differ from the relocated image");
        out.exec_result = fn(0x1234, 0x77) ^ (fn(3, 2) << 1);
        char b[64]; snprintf(b, sizeof b, "exec=%llx\n", (unsigned long long)out.exec_result); out.output += b;
      }
      out.completed = true;
      return out;
    }
    case kWContainers: {
      // Rounds of growing size on ONE arena with a soft or hard reset in between: raw one-shot and reusable requests of
      // up to several blocks, two vectors, a constant pool and a heap string. The output holds contents, never addresses.
      Arena& arena = *env.arena;
      Rng r(sim::mix64(s.seed));
      uint32_t rounds = 2 + uint32_t(r.below(3));
      for (uint32_t round = 0; round < rounds; round++) {
        env.vec64.reset(); env.vec32.reset(); env.pool.reset();
        if (round) arena.reset(r.chance(3, 4) ? ResetPolicy::kSoft : ResetPolicy::kHard);
        else if (env.arena_used) arena.reset(ResetPolicy::kSoft);   // redo after a failure: the arena is reset and reused
        env.arena_used = true;
        env.pool.reset(new ConstPool(arena));
        (void)env.str.clear();
        uint64_t sum = 0;
        size_t nops = (8 + s.steps / 2) << round;
        struct Reusable { void* p; size_t size; };
        std::vector<Reusable> held;
        uint64_t fired_seen = sim::run_faults_fired_total();
        for (size_t i = 0; i < nops; i++) {
          // the operation's arguments are drawn first, so that a failed operation can be repeated unchanged
          uint32_t kind = uint32_t(r.below(7)); uint64_t a = r.next(), b = r.next(), c = r.next();
          auto perform = [&]() -> Error {
            Error err = Error::kOk;
            switch (kind) {
              case 0: { size_t n = Arena::aligned_size(size_t(8 + a % (size_t(200) << (2 * round)))); uint8_t* p = arena.alloc_oneshot<uint8_t>(n); if (!p) err = make_error(Error::kOutOfMemory); else { memset(p, int(i), n); sum += n; } break; }
              case 1: { uint64_t v = a; err = env.vec64.append(arena, v); if (err == Error::kOk) sum ^= v; break; }
              case 2: { size_t n = size_t(1 + a % (size_t(40) << round)); err = env.vec32.reserve_additional(arena, n); for (size_t k = 0; k < n && err == Error::kOk; k++) err = env.vec32.append(arena, uint32_t(i + k)); break; }
              case 3: { size_t n = size_t(16 + a % 500), got = 0; void* p = arena.alloc_reusable<uint8_t>(n, Out(got)); if (!p) err = make_error(Error::kOutOfMemory); else { memset(p, 0x5A, got); held.push_back(Reusable{p, got}); } break; }
              case 4: { if (held.empty()) break; size_t k = size_t(a % held.size()); for (size_t q = 0; q < held[k].size; q++) SIM_CHECK(static_cast<uint8_t*>(held[k].p)[q] == 0x5A, "c15:reusable-block-overwritten", "a reusable arena block of %zu bytes that is still held was overwritten at byte %zu", held[k].size, q); arena.free_reusable(held[k].p, held[k].size); held.erase(held.begin() + long(k)); break; }
              case 5: { uint64_t d[8]; Rng dr(a); for (auto& x : d) x = dr.chance(1, 3) ? 7 : dr.next(); size_t sz = size_t(1) << (b % 7); size_t off = 0; err = env.pool->add(d, sz, Out(off)); if (err == Error::kOk) sum += off * 31 + sz; break; }
              default: {
                // heap string: mostly appends; sometimes the content is replaced through one of the assign paths
                // (String::prepare(kAssign)) by something longer than the current capacity
                uint64_t v = a & 0xffff; uint32_t how = uint32_t(b % 12);
                size_t grow = ((c & 1) && env.str.size() < 30000 ? env.str.size() * 2 + 64 : env.str.size()) + 1 + size_t((c >> 1) % 64);   /* never a function of capacity(): a recycled string keeps its buffer */
                if (how == 0) err = env.str.assign_chars(char('a' + v % 26), grow);
                else if (how == 1) { std::string tmp(grow, char('A' + v % 26)); err = env.str.assign(Span<const char>(tmp.data(), tmp.size())); }
                else if (how == 2) { std::vector<uint8_t> bytes(grow / 2 + 1, uint8_t(v)); err = env.str.assign_hex(bytes.data(), bytes.size()); }
                else if (how == 3) err = env.str.assign_format("%0*llu", int(grow), (unsigned long long)v);
                else err = env.str.append_format("%llu,", (unsigned long long)v);
                break;
              }
            }
            return err;
          };
          Error err = perform();
          if (err != Error::kOk && retry_failed_call && kind != 2 && kind < 6 /* a failed String assign may legitimately leave other (valid) content, from which the repeated call would derive another length */ && sim::run_faults_fired_total() > fired_seen) {
            // "repeating the work once memory is available": the failed operation is made again on the same arena, which
            // keeps being used (a multi-step operation - kind 2 - is not repeated, its first part has been done)
            fired_seen = sim::run_faults_fired_total();
            out.first_error = err;
            sim::count("c15.probe.container_operation_repeated_after_failure");
            err = perform();
          }
          if (err != Error::kOk) { if (err == Error::kOutOfMemory || faults_fired_here()) { out.first_error = err; return out; } }
        }
        for (uint64_t v : env.vec64) sum = sum * 1099511628211ull + v;
        for (uint32_t v : env.vec32) sum = sum * 1099511628211ull + v;
        std::vector<uint8_t> img(env.pool->size() + 1, 0xEE);
        env.pool->fill(img.data());
        sum = sim::hash_bytes(img.data(), env.pool->size(), sum);
        sum = sim::hash_bytes(env.str.data(), env.str.size(), sum);
        char b[96]; snprintf(b, sizeof b, "round %u: vec64=%zu vec32=%zu pool=%zu str=%zu sum=%016llx\n", round, env.vec64.size(), env.vec32.size(), env.pool->size(), env.str.size(), (unsigned long long)sum);
        out.output += b;
      }
      out.completed = true;
      return out;
    }
    default: {   // attach/detach/reinit choreography with three emitters on one holder
      BaseEmitter& e0 = env.emitter(s.target, 0); BaseEmitter& e1 = env.emitter(s.target, 1); BaseEmitter& e2 = env.emitter(s.target, 2);
      Rng r(sim::mix64(s.seed));
      STEP(attach(e0));
      STEP(attach(e1));
      STEP(attach(e2));
      gen::GenOptions o; o.steps = 8; o.sections = false;
      gen::Program p = gen::generate_program(r, s.target, o);
      gen::ApplyCtx ctx;
      for (size_t i = 0; i < p.steps.size(); i++) { Error err = gen::apply_step(e0, code, p, i, ctx); if (err == Error::kOutOfMemory || (err != Error::kOk && faults_fired_here())) { check_one_shot_cleared(e0, err, i); out.first_error = err; return out; } env.eh.reset(); }
      STEP(code.detach(&e1));
      STEP(code.attach(&e1));
      STEP(code.reinit());
      gen::ApplyCtx ctx2;
      for (size_t i = 0; i < p.steps.size(); i++) { Error err = gen::apply_step(e1, code, p, i, ctx2); if (err == Error::kOutOfMemory || (err != Error::kOk && faults_fired_here())) { check_one_shot_cleared(e1, err, i); out.first_error = err; return out; } env.eh.reset(); }
      STEP(e1.finalize());
      STEP(code.detach(&e2));
      out.output = gen::snapshot(code);
      out.completed = true;
      return out;
    }
  }
}

void destroy_env(std::unique_ptr<Env>& env, int order) {
  // Destruction order is part of the fault space: holder first or emitters first.
  if (order & 1) env->code.reset();
  if (env->rt) { for (void* p : env->installed) (void)env->rt->release(p); env->installed.clear(); }
  env.reset();
}

void check_no_leaks(const char* when) {
  SIM_CHECK(sim::heap::live_blocks_this_run() == 0, "c15:leak-heap", "%s: %zu heap block(s) were never freed:%s", when, sim::heap::live_blocks_this_run(), sim::heap::describe_live_blocks_this_run().c_str());
  SIM_CHECK(sim::vm::live_mappings_this_run() == 0 && sim::vm::live_fds_this_run() == 0, "c15:leak-vm", "%s: mappings / descriptors left:%s", when, sim::vm::describe_leaks().c_str());
}

void apply_env_knobs(const Plan& plan) {
  sim::set_knob_arena_block(size_t(plan.get("arena_block", 0)));
  sim::set_knob_code_buffer(size_t(plan.get("code_buffer", 0)));
  sim::heap::configure(int(plan.get("junk", 0)), int(plan.get("realloc_move", 0)), int(plan.get("shift", 0)), plan.seed);
  sim::vm::configure(int(plan.get("window", 0)), int(plan.get("policy", 0)), 0, plan.seed);
  sim::heap::arm(true);
  sim::vm::arm(true);
}

struct Counts { uint32_t n[sim::kFaultKindCount]; };

// Clean run: golden output + request counts.
Outcome clean_run(const Plan& plan, const Spec& s, Counts& counts) {
  apply_env_knobs(plan);
  Op op; op.kind = kWorkload;
  sim::begin_op(op, 0);
  std::unique_ptr<Env> env(new Env(s));
  Outcome golden = run_workload(s, *env, 0);
  for (int k = 0; k < sim::kFaultKindCount; k++) counts.n[k] = sim::op_request_count(uint8_t(k));
  sim::end_op();
  destroy_env(env, 0);
  check_no_leaks("after the fault-free run");
  return golden;
}

// One faulted execution + aftermath. `faults` are attached to the workload operation.
void faulted_run(const Plan& plan, const Spec& s, const Outcome& golden, const std::vector<sim::Fault>& faults, int aftermath, int destroy_order, int prob_kind, uint32_t prob_den, int fail_after_kind, int64_t fail_after) {
  apply_env_knobs(plan);
  Op op; op.kind = kWorkload; op.faults = faults;
  sim::begin_op(op, 1);
  if (prob_den) sim::set_fault_probability(uint8_t(prob_kind), 1, prob_den);
  if (fail_after >= 0) sim::set_fail_after(uint8_t(fail_after_kind), fail_after + int64_t(sim::run_request_count(uint8_t(fail_after_kind))));
  uint64_t fired_before = sim::run_faults_fired_total();
  std::unique_ptr<Env> env(new Env(s));
  // Aftermath 3 (assembler workload, single fault): the call that failed is repeated on the spot and the workload goes
  // on; the final output must be the failure-free output.
  bool retry = aftermath == 3 && (s.kind == kWAsm || s.kind == kWBuilder || s.kind == kWContainers) && faults.size() == 1 && !prob_den && fail_after < 0;
  if (aftermath == 3 && !retry) aftermath = 0;
  Outcome o = run_workload(s, *env, 0, retry, &golden);
  if (retry) {
    uint64_t f = sim::run_faults_fired_total() - fired_before;
    sim::end_op();
    if (o.completed && f > 0 && o.first_error != Error::kOk) {
      sim::count("c15.probe.retried_failed_call");
      // A Builder obtains the label id from the holder before it allocates its own label node; when that allocation fails
      // the id stays behind as a label nobody can reach (neither bound nor referenced). That is not code: for Builder
      // workloads such orphans are left out of the comparison (and the remaining labels renumbered).
      if (s.kind == kWBuilder && o.output != golden.output && o.output_code == golden.output_code) sim::count("c15.probe.orphan_label_after_failed_builder_new_label");
      else if (o.output != golden.output) {
        size_t pos = 0; while (pos < o.output.size() && pos < golden.output.size() && o.output[pos] == golden.output[pos]) pos++;
        size_t ls = o.output.rfind('\n', pos); ls = ls == std::string::npos ? 0 : ls + 1;
        sim::fail("c15:retried-call-differs-from-golden", "the call that failed with error %u was repeated once memory was available and the workload completed, but its output differs from the failure-free run near:\n  retried: %.120s\n  golden:  %.120s", unsigned(o.first_error),
                  o.output.c_str() + ls, golden.output.c_str() + (ls < golden.output.size() ? ls : 0));
      }
    }
    else if (!o.completed && f > 0) sim::count("c15.probe.retry_did_not_complete");
    destroy_env(env, destroy_order);
    check_no_leaks("after retrying a failed call");
    return;
  }
  uint64_t fired = sim::run_faults_fired_total() - fired_before;
  sim::end_op();
  sim::set_fault_probability(uint8_t(prob_kind), 0, 0);
  sim::set_fail_after(uint8_t(fail_after_kind), -1);
  sim::logf("faulted run: fired=%llu completed=%d err=%u", (unsigned long long)fired, int(o.completed), unsigned(o.first_error));
  if (fired) sim::count(o.completed ? "c15.probe.fault_absorbed" : "c15.probe.fault_reported");

  // ConstPool documents its gap bookkeeping as optional ("if this failed nothing really happened, just the gap won't be
  // visible") and registering the halves/quarters of a wide constant for sharing is an optimisation as well: a lost gap
  // or a missing shared node makes a later constant land at another (valid) offset, so the pool layout - and with it
  // the output - may legitimately differ from the failure-free run. add() reports the failure of the constant's own
  // node, so a failure that add() absorbed is one of those two. Whether such a pool is still right is C19's question.
  // As soon as one failure was absorbed inside ConstPool::add() the layout of that pool - and everything behind it - may
  // differ, whatever else failed and was absorbed in the same run (a hash table that could not grow, a lost log line).
  bool only_optional_faults = false;
  if (o.completed && o.output != golden.output && fired > 0 && !sim::fired_fault_stacks_overflowed()) {
    const auto& stacks = sim::fired_fault_stacks();
    for (size_t i = stacks.size() - size_t(fired <= stacks.size() ? fired : stacks.size()); i < stacks.size() && !only_optional_faults; i++)
      if (sim::stack_has_function(stacks[i], "ConstPool::add")) only_optional_faults = true;
  }
  if (o.completed && o.output != golden.output && (only_optional_faults || (fired > 0 && sim::fired_fault_stacks_overflowed()))) {
    sim::count("c15.probe.optional_gap_bookkeeping_absorbed");
  }
  else if (o.completed) {
    // The call(s) completed: the output must be what a failure-free run produces.
    if (o.output != golden.output) {
      size_t pos = 0; while (pos < o.output.size() && pos < golden.output.size() && o.output[pos] == golden.output[pos]) pos++;
      size_t ls = o.output.rfind('\n', pos); ls = ls == std::string::npos ? 0 : ls + 1;
      sim::fail("c15:completed-with-different-output", "workload '%s' completed without reporting an error although %llu allocation(s) failed, and its output differs from the failure-free run near:\n  faulted: %.120s\n  golden:  %.120s",
                kWorkloadNames[s.kind], (unsigned long long)fired, o.output.c_str() + ls, golden.output.c_str() + (ls < golden.output.size() ? ls : 0));
    }
  }
  else {
    SIM_CHECK(fired > 0 || !golden.completed, "c15:error-without-fault", "workload '%s' reported error %u although no allocation failed", kWorkloadNames[s.kind], unsigned(o.first_error));
  }

  // ---- aftermath ---------------------------------------------------------------------------------------------
  // reinit() documents that it keeps the base address the holder had - which relocate_to_base() (also called by
  // JitRuntime::add) has assigned by then - so the reinit aftermath is only comparable for workloads that never relocate.
  // (that restriction became unnecessary: reinit() now restores the base address given to init(), see known_findings.txt)
  Op clean; clean.kind = kWorkload;
  sim::begin_op(clean, 2);
  if (aftermath == 0 || (s.kind == kWChoreography && aftermath == 2)) {
    sim::end_op();
    destroy_env(env, destroy_order);
    check_no_leaks("after destroying the objects of a faulted run");
    return;
  }
  // Every object involved can still be reset / reused; repeating the work produces exactly the failure-free output.
  // (A JitRuntime whose allocator could not even be constructed reports that through is_initialized(); such an object
  // was never created successfully and is replaced.)
  if (env->rt && !env->rt->allocator().is_initialized()) { env->rt = make_runtime(s); sim::count("c15.probe.runtime_recreated"); }
  CodeHolder& code = *env->code;
  Outcome redo;
  if (aftermath == 1) {
    code.reset((destroy_order & 2) ? ResetPolicy::kHard : ResetPolicy::kSoft);
    redo = run_workload(s, *env, 0);
  }
  else {
    if (code.is_initialized()) {
      Error err = code.reinit();
      SIM_CHECK(err == Error::kOk, "c15:reinit-after-fault", "reinit() after a faulted run failed with %u", unsigned(err));
      redo = run_workload(s, *env, 1);
    }
    else redo = run_workload(s, *env, 0);
  }
  sim::end_op();
  SIM_CHECK(redo.completed == golden.completed, "c15:redo-failed", "repeating workload '%s' on the same objects after %s failed with error %u", kWorkloadNames[s.kind], aftermath == 1 ? "reset()" : "reinit()", unsigned(redo.first_error));
  if (redo.output != golden.output) {
    size_t pos = 0; while (pos < redo.output.size() && pos < golden.output.size() && redo.output[pos] == golden.output[pos]) pos++;
    size_t ls = redo.output.rfind('\n', pos); ls = ls == std::string::npos ? 0 : ls + 1;
    sim::fail("c15:redo-differs-from-golden", "repeating workload '%s' on the same objects after %s produced different output near:\n  redo:   %.120s\n  golden: %.120s", kWorkloadNames[s.kind], aftermath == 1 ? "reset()" : "reinit()",
              redo.output.c_str() + ls, golden.output.c_str() + (ls < golden.output.size() ? ls : 0));
  }
  sim::count("c15.probe.redo_compared");
  destroy_env(env, destroy_order);
  check_no_leaks("after redo and destruction");
}

static const uint8_t kSweepKinds[] = {sim::kFaultArena, sim::kFaultMalloc, sim::kFaultRealloc, sim::kFaultMmap, sim::kFaultMemfd, sim::kFaultFtruncate, sim::kFaultMunmap};

void execute_sweep(const Plan& plan) {
  Spec s = spec_from(plan);
  Counts counts{};
  Outcome golden = clean_run(plan, s, counts);
  sim::logf("golden: workload=%s target=%s completed=%d arena=%u malloc=%u realloc=%u mmap=%u out=%zu", kWorkloadNames[s.kind], gen::target_name(s.target), int(golden.completed), counts.n[sim::kFaultArena], counts.n[sim::kFaultMalloc],
            counts.n[sim::kFaultRealloc], counts.n[sim::kFaultMmap], golden.output.size());
  sim::mark_nontrivial();

  if (plan.get("single", 0)) {
    std::vector<sim::Fault> f;
    f.push_back(sim::Fault{uint8_t(plan.get("fault_kind", 0)), uint32_t(plan.get("fault_ord", 0)), 0});
    faulted_run(plan, s, golden, f, int(plan.get("aftermath", 0)), int(plan.get("destroy_order", 0)), 0, 0, 0, -1);
    sim::add_steps(1);
    return;
  }

  int64_t sample = plan.get("sample", 0);   // 0 = every k (fault enumeration)
  Rng r = sim::stream(plan.seed, "sweep");
  uint64_t subruns = 0;
  for (uint8_t kind : kSweepKinds) {
    uint32_t n = counts.n[kind];
    if (!n) continue;
    std::vector<uint32_t> ks;
    if (!sample || n <= uint32_t(sample)) for (uint32_t k = 0; k < n; k++) ks.push_back(k);
    else for (int64_t i = 0; i < sample; i++) ks.push_back(uint32_t(r.below(n)));
    for (uint32_t k : ks) {
      int aftermath = int(r.below(4)), order = int(r.below(4));
      char crumb[128];
      snprintf(crumb, sizeof crumb, "single=1 fault_kind=%u fault_ord=%u aftermath=%d destroy_order=%d", unsigned(kind), k, aftermath, order);
      sim::breadcrumb(crumb);
      std::vector<sim::Fault> f; f.push_back(sim::Fault{kind, k, 0});
      faulted_run(plan, s, golden, f, aftermath, order, 0, 0, 0, -1);
      subruns++;
    }
  }
  sim::add_steps(subruns);
  sim::add_subruns(subruns, subruns);
  char name[64]; snprintf(name, sizeof name, "c15.sweep.%s", kWorkloadNames[s.kind]); sim::count(name, subruns);
}

void execute_multi(const Plan& plan) {
  Spec s = spec_from(plan);
  Counts counts{};
  Outcome golden = clean_run(plan, s, counts);
  sim::mark_nontrivial();
  const Op& op = plan.ops.empty() ? Op() : plan.ops[0];
  int mode = int(plan.get("multi_mode", 0));
  int kind = int(plan.get("multi_kind", 0));
  uint32_t n = counts.n[kind] ? counts.n[kind] : 1;
  std::vector<sim::Fault> faults;
  uint32_t den = 0; int64_t after = -1;
  if (mode == 0) after = int64_t(uint64_t(op.a[0]) % n);                       // fail everything after the k-th request
  else if (mode == 1) den = uint32_t(2 + uint64_t(op.a[0]) % 60);               // each request fails with probability 1/den
  else for (int i = 0; i < 3; i++) faults.push_back(sim::Fault{uint8_t(i == 2 ? sim::kFaultMalloc : kind), uint32_t(uint64_t(op.a[i]) % (i == 2 ? (counts.n[sim::kFaultMalloc] ? counts.n[sim::kFaultMalloc] : 1) : n)), 0});
  sim::logf("multi: mode=%d kind=%d n=%u", mode, kind, n);
  faulted_run(plan, s, golden, faults, int(plan.get("aftermath", 0)), int(plan.get("destroy_order", 0)), kind, den, kind, after);
  sim::add_steps(1);
}

void fill_common(Plan& p, Rng& cfg, bool thorough) {
  static const int64_t blocks[] = {0, 0, 1024, 1024, 2048, 4096};
  static const int64_t bufs[] = {0, 0, 32, 64, 256};
  p.set("arena_block", blocks[cfg.below(6)]);
  p.set("code_buffer", bufs[cfg.below(5)]);
  p.set("junk", int64_t(cfg.below(4)));
  p.set("realloc_move", int64_t(cfg.below(2)));
  p.set("shift", int64_t(cfg.below(4)));
  p.set("window", int64_t(cfg.below(2)));
  p.set("policy", int64_t(cfg.below(sim::vm::kPolicyCount)));
  int kind = int(cfg.below(kWorkloadCount));
  p.set("workload", kind);
  p.set("target", int64_t(cfg.below(3)));
  p.set("wseed", int64_t(cfg.next() & 0x7fffffffffffll));
  p.set("steps", int64_t(5 + cfg.below(thorough ? 120 : 50)));
  p.set("nfuncs", int64_t(1 + cfg.below(3)));
  p.set("logger", int64_t(cfg.below(2)));
  p.set("validate", int64_t(cfg.below(2)));
  p.set("static", cfg.chance(1, 4) ? 1 : 0);
  p.set("jit_options", cfg.chance(1, 3) ? 0 : int64_t(cfg.below(32)));
  p.set("prehistory", cfg.chance(1, 2) ? 0 : int64_t(1 + cfg.below(2)));
}

Plan generate_sweep(uint64_t seed, bool thorough) {
  Plan p;
  Rng cfg = sim::stream(seed, "cfg");
  fill_common(p, cfg, thorough);
  p.set("sample", thorough ? 0 : 12);
  Op op; op.kind = kWorkload; p.ops.push_back(op);
  return p;
}

Plan generate_multi(uint64_t seed, bool thorough) {
  Plan p;
  Rng cfg = sim::stream(seed, "cfg");
  fill_common(p, cfg, thorough);
  p.set("multi_mode", int64_t(cfg.below(3)));
  static const int64_t kinds[] = {sim::kFaultArena, sim::kFaultArena, sim::kFaultArena, sim::kFaultMalloc, sim::kFaultRealloc, sim::kFaultMmap};
  p.set("multi_kind", kinds[cfg.below(6)]);
  p.set("aftermath", int64_t(cfg.below(3)));
  p.set("destroy_order", int64_t(cfg.below(4)));
  Op op; op.kind = kWorkload; for (int i = 0; i < 4; i++) op.a[i] = int64_t(cfg.next() & 0x7fffffff); p.ops.push_back(op);
  return p;
}

void shrink(const Plan& p, std::vector<Plan>& out) {
  static const char* const zero_keys[] = {"junk", "shift", "arena_block", "realloc_move", "code_buffer", "logger", "validate", "static", "policy", "window", "destroy_order", "prehistory", "jit_options"};
  for (const char* k : zero_keys) if (p.get(k)) { Plan q = p; q.set(k, 0); out.push_back(q); }
  if (p.get("steps") > 5) { Plan q = p; q.set("steps", p.get("steps") / 2); out.push_back(q); }
  if (p.get("nfuncs") > 1) { Plan q = p; q.set("nfuncs", p.get("nfuncs") - 1); out.push_back(q); }
  if (p.get("aftermath")) { Plan q = p; q.set("aftermath", 0); out.push_back(q); }
}

const sim::Scenario kSweep = {"C15", "fault-sweep", "asan", 12000, 30000, generate_sweep, execute_sweep, op_name, shrink, nullptr};
const sim::Scenario kMulti = {"C15", "multi-fault", "asan", 40000, 600000, generate_multi, execute_multi, op_name, shrink, nullptr};
sim::Registrar r1(kSweep), r2(kMulti);

const char* const kAssumptions[] = {
  "A faulted run stops at the first error the API reports (return value, invalid label, null annotation or the attached error handler); continuing to drive an object after it reported out-of-memory is outside the statement.",
  "A call that completes although an allocation failed must produce exactly the failure-free output; where the implementation documents a request as optional (hash growth, reserve hints, gap bookkeeping, log formatting) that is what happens.",
  "The container workload of this sweep is a fixed script per seed (raw arena requests, two vectors, a constant pool, a heap string over rounds with resets); dense random faults against reference models of every container are the business of the C18 and C19 checks.",
  nullptr};
const char* const kReal[] = {"asmjit CodeHolder, Assembler/Builder/Compiler for x86-32, x86-64, AArch64, RA passes, flatten/relocate/copy, JitRuntime + JitAllocator + VirtMem, generated x86-64 code executed on the host (jit-install workload)", nullptr};
const char* const kStub[] = {"H1 arena fault point, SimHeap (malloc/realloc failure, junk fill, realloc policy), SimVM (mmap/memfd/ftruncate/munmap failure, placement), H3/H4 knobs", nullptr};
const sim::PropInfo kInfo = {"C15", "fault_enumeration",
  "A case is one (workload instance, failing request) pair. Workload instances are seeded: kind (assembler with labels/sections/relocations/data/const pools + flatten + relocate + copy; builder + finalize; compiler with 1..3 functions incl. spills, calls, jump tables, const pools; compiler + JitRuntime::add + execute on the host; attach/detach/reinit choreography with three emitters; container script: rounds of growing size on one arena - raw one-shot / reusable requests, two ArenaVectors, a ConstPool, a heap String - with soft/hard resets in between), optionally on objects with a past (another program assembled before, then reset(kSoft)+init or reinit(), so that the arena holds retained blocks) x target (x86-32, x86-64, AArch64) x logger/validation x static/dynamic arena x arena block size x code buffer capacity x heap layout. "
  "Scenario 'fault-sweep': a clean run counts the arena, malloc, realloc, mmap, memfd, ftruncate and munmap requests of the instance, then request k of each kind fails - for EVERY k in the thorough tier (the sweep is exhaustive per instance), for a seeded sample of 12 k per kind in the quick tier - each followed by a drawn aftermath (destroy in a drawn order / reset+init+redo / reinit+redo). Scenario 'multi-fault': fail-everything-after-k, each request fails with probability 1/d, or three specific requests. "
  "evaluations counts sub-runs (faulted executions); distinct_nontrivial counts distinct (instance, kind, k) sub-runs plus distinct multi-fault runs.",
  kAssumptions, kReal, kStub};
sim::PropInfoRegistrar reginfo(kInfo);

} // namespace
