// C04 - Relocated code addresses its absolute targets correctly at any base address (partial).
//
// Simulation leg (x86-64, executed): programs from a closed vocabulary whose result the model computes are installed
// through JitRuntime::add into blocks whose address SimVM chose, or assembled with the base known in advance, or
// relocated later to a mapping the simulator placed; call targets (stubs) and data are placed by the simulator near,
// more than 2 GiB away, below 4 GiB and high. The function is executed.
// Non-simulation leg (labelled as such): x86-32 and AArch64 cannot be executed here and bases around 2^47 / 2^63 cannot
// be mapped; for those relocate_to_base() runs on arbitrary bases and a small field decoder recomputes the target.
#include "sim/sim.h"

#include <asmjit/core.h>
#include <asmjit/x86.h>
#include <asmjit/a64.h>

#include <string.h>
#include <memory>
#include <string>
#include <vector>

using namespace asmjit;
using sim::Op;
using sim::Plan;
using sim::Rng;

namespace {

enum OpKind : uint16_t { kCallStub, kLocalTable, kRipData, kAbsData, kRelData, kPad, kPtrData, kOpCount };
const char* const kOpNames[kOpCount] = {"call_stub", "local_table", "rip_data", "abs32_data", "forced_rel_data", "pad", "ptr_data"};
const char* op_name(uint16_t k) { return k < kOpCount ? kOpNames[k] : "?"; }

struct Stub { void* page; uint8_t* code; uint32_t value; int window; };
struct Data { void* page; uint64_t* slot; uint64_t value; };

struct World {
  std::vector<Stub> stubs;
  std::vector<Data> datas;
  void* ret_stub_page = nullptr; uint8_t* ret_stub = nullptr;
  ~World() { for (auto& s : stubs) sim::vm::harness_unmap(s.page, 4096); for (auto& d : datas) sim::vm::harness_unmap(d.page, 4096); if (ret_stub_page) sim::vm::harness_unmap(ret_stub_page, 4096); }
};

bool make_stub(World& w, int window, uint32_t value, uint32_t offset_in_page) {
  void* page = sim::vm::harness_map(window, 4096, 7);
  if (!page) return false;
  uint8_t* c = static_cast<uint8_t*>(page) + (offset_in_page & 0xff0);
  c[0] = 0xB8; memcpy(c + 1, &value, 4); c[5] = 0xC3;   // mov eax, value ; ret
  w.stubs.push_back(Stub{page, c, value, window});
  return true;
}

static bool reachable_rel32(uint64_t site_end_abs, uint64_t target);

struct Built {
  Error err = Error::kOk;
  uint64_t expected = 0;
  bool expect_reloc_failure = false;   // a forced-relative operand cannot reach its target from this base
  std::vector<std::pair<size_t, uint64_t>> forced_rel_sites;   // (end offset of the instruction inside .text, absolute target)
};

// Emits the program described by the plan. `code_window` is only used to decide reachability expectations later.
Built build_program(const Plan& plan, World& w, CodeHolder& code, x86::Assembler& a) {
  Built b;
  Section* data_section = nullptr;
  Section* tail_section = nullptr;
  Section* fn_section = nullptr;
  // local functions may live in a second executable section, so that labels referenced by embedded addresses are bound
  // in a section whose offset is not zero
  // (sections are not always created in the order in which they are laid out)
  bool data_first = plan.get("data_first", 0) != 0;
  if (data_first && plan.get("data_section", 0)) { b.err = code.new_section(Out(data_section), ".data", SIZE_MAX, SectionFlags::kNone, 8, 1); if (b.err != Error::kOk) return b; }
  if (plan.get("fn_section", 0)) { b.err = code.new_section(Out(fn_section), ".text2", SIZE_MAX, SectionFlags::kExecutable, 16, 0); if (b.err != Error::kOk) return b; }
  bool tables_early = plan.get("tables_early", 0) != 0;   // embedded label addresses are emitted BEFORE their labels are bound
  if (!data_first && plan.get("data_section", 0)) { b.err = code.new_section(Out(data_section), ".data", SIZE_MAX, SectionFlags::kNone, 8, 1); if (b.err != Error::kOk) return b; }

  std::vector<std::pair<Label, uint32_t>> local_fns;      // label, constant
  std::vector<std::pair<Label, uint64_t>> rip_datas;      // label, value
  struct Table { Label label; std::vector<Label> entries; };
  std::vector<Table> tables;
  struct PtrSlot { Label slot; Label data; uint64_t value; };
  std::vector<PtrSlot> ptr_slots;

  a.push(x86::rbx);
  a.xor_(x86::ebx, x86::ebx);
  for (const Op& op : plan.ops) {
    switch (op.kind) {
      case kCallStub: {
        if (w.stubs.empty()) break;
        const Stub& s = w.stubs[size_t(op.a[0]) % w.stubs.size()];
        a.call(Imm(uint64_t(uintptr_t(s.code))));
        a.add(x86::rbx, x86::rax);
        b.expected += s.value;
        break;
      }
      case kLocalTable: {
        Table t; t.label = a.new_label();
        uint32_t n = uint32_t(1 + op.a[0] % 4);
        a.lea(x86::rcx, x86::ptr(t.label));
        for (uint32_t i = 0; i < n; i++) {
          uint32_t k = uint32_t(op.a[1] + i * 977) & 0xfffff;
          Label fn = a.new_label();
          local_fns.emplace_back(fn, k);
          t.entries.push_back(fn);
          a.push(x86::rcx); a.sub(x86::rsp, 8);
          a.call(x86::qword_ptr(x86::rcx, int32_t(i * 8)));
          a.add(x86::rsp, 8); a.pop(x86::rcx);
          a.add(x86::rbx, x86::rax);
          b.expected += k;
        }
        tables.push_back(t);
        break;
      }
      case kRipData: {
        Label l = a.new_label();
        uint64_t v = uint64_t(op.a[0]) & 0xffffffffffull;
        rip_datas.emplace_back(l, v);
        a.add(x86::rbx, x86::qword_ptr(l));
        b.expected += v;
        break;
      }
      case kAbsData: case kRelData: {
        if (w.datas.empty()) break;
        const Data& d = w.datas[size_t(op.a[0]) % w.datas.size()];
        x86::Mem m = x86::qword_ptr(uint64_t(uintptr_t(d.slot)));
        if (op.kind == kRelData) {
          m.set_addr_rel();
          size_t before = a.offset();
          // some of these carry an immediate BEHIND the displacement (imul r, [mem], imm32): the displacement is then not the
          // last field of the instruction although it is still measured from the instruction's end
          uint32_t mul = (op.a[1] % 3) == 0 ? uint32_t(130 + op.a[1] % 1000) : 0;
          Error e = mul ? a.imul(x86::rax, m, Imm(mul)) : a.add(x86::rbx, m);
          if (e != Error::kOk) {
            // With the base known in advance the assembler resolves the displacement itself and must refuse a target
            // that is out of reach; with an unknown base it cannot know and has to emit a relocation.
            bool known = code.has_base_address();
            bool reach = known && reachable_rel32(code.base_address() + before + (mul ? 11 : 8), uint64_t(uintptr_t(d.slot)));
            SIM_CHECK(known && !reach, "c04:reachable-target-refused", "forced RIP-relative operand onto %#llx was refused with error %u (base %s)", (unsigned long long)uintptr_t(d.slot), unsigned(e), known ? "known, target reachable" : "unknown");
            sim::count("c04.probe.unreachable_refused_at_emit");
            break;
          }
          b.forced_rel_sites.emplace_back(a.offset(), uint64_t(uintptr_t(d.slot)));
          if (mul) { a.add(x86::rbx, x86::rax); b.expected += d.value * mul; sim::count("c04.probe.immediate_behind_relocated_displacement"); break; }
        }
        else {
          m.set_addr_abs();
          uint32_t mul = (op.a[1] % 3) == 0 ? uint32_t(130 + op.a[1] % 1000) : 0;
          if (mul) { a.imul(x86::rax, m, Imm(mul)); a.add(x86::rbx, x86::rax); b.expected += d.value * mul; break; }
          a.add(x86::rbx, m);
        }
        b.expected += d.value;
        break;
      }
      case kPtrData: {
        // the value is reached through an embedded absolute address: mov rax, [rip + slot] ; add rbx, [rax]
        PtrSlot ps; ps.slot = a.new_label(); ps.data = a.new_label(); ps.value = uint64_t(op.a[0]) & 0xffffffffffull;
        a.mov(x86::rax, x86::qword_ptr(ps.slot));
        a.add(x86::rbx, x86::qword_ptr(x86::rax));
        b.expected += ps.value;
        ptr_slots.push_back(ps);
        break;
      }
      case kPad: { for (int64_t i = 0; i < (op.a[0] % 64); i++) a.nop(); break; }
      default: break;
    }
  }
  a.mov(x86::rax, x86::rbx);
  a.pop(x86::rbx);
  if (plan.get("tail_jump", 0) && w.ret_stub) a.jmp(Imm(uint64_t(uintptr_t(w.ret_stub)))); else a.ret();

  auto emit_tables = [&]() {
    for (auto& t : tables) { a.align(AlignMode::kData, 8); a.bind(t.label); for (auto& e : t.entries) a.embed_label(e, 8); }
    for (auto& ps : ptr_slots) { a.align(AlignMode::kData, 8); a.bind(ps.slot); a.embed_label(ps.data, 8); }
  };
  if (tables_early) { emit_tables(); if (!tables.empty() || !ptr_slots.empty()) sim::count("c04.probe.forward_embedded_address"); }
  if (fn_section) a.section(fn_section);
  for (auto& f : local_fns) { a.align(AlignMode::kCode, 16); a.bind(f.first); a.mov(x86::eax, Imm(f.second)); a.ret(); }
  if (data_section) a.section(data_section);
  if (tables_early) for (auto& ps : ptr_slots) { a.align(AlignMode::kData, 8); a.bind(ps.data); a.embed_data_array(TypeId::kUInt64, &ps.value, 1); }
  else { for (auto& ps : ptr_slots) { a.align(AlignMode::kData, 8); a.bind(ps.data); a.embed_data_array(TypeId::kUInt64, &ps.value, 1); } emit_tables(); }
  if ((fn_section || data_section) && (!tables.empty() || !ptr_slots.empty())) sim::count("c04.probe.cross_section_embedded_address");
  for (auto& d : rip_datas) { a.align(AlignMode::kData, 8); a.bind(d.first); a.embed_data_array(TypeId::kUInt64, &d.second, 1); }
  if (plan.get("tail_section", 0)) {
    // a user section ordered after .addrtab (same order value, higher id when .addrtab already exists)
    b.err = code.new_section(Out(tail_section), ".tail", SIZE_MAX, SectionFlags::kNone, 16, std::numeric_limits<int32_t>::max());
    if (b.err == Error::kOk) { a.section(tail_section); uint64_t z = 0x1122334455667788ull; a.embed_data_array(TypeId::kUInt64, &z, 1); }
  }
  return b;
}

static bool reachable_rel32(uint64_t site_end_abs, uint64_t target) { int64_t d = int64_t(target - site_end_abs); return d >= INT32_MIN && d <= INT32_MAX; }

void execute_sim(const Plan& plan) {
  sim::heap::configure(0, 0, int(plan.get("shift", 0)), plan.seed);
  int code_window = int(plan.get("window", 0));
  if (!sim::vm::window_available(code_window)) code_window = sim::vm::kWinLow;
  sim::vm::configure(code_window, int(plan.get("policy", 0)), 0, plan.seed);
  sim::heap::arm(true); sim::vm::arm(true);
  int variant = int(plan.get("variant", 0));   // 0 JitRuntime::add, 1 base known in advance, 2 relocate later
  Op whole; whole.kind = kPad; if (!plan.ops.empty()) whole.faults = plan.ops[0].faults;
  sim::begin_op(whole, 0);
  {
    World w;
    Rng r = sim::stream(plan.seed, "world");
    int other_window = code_window == sim::vm::kWinHigh ? sim::vm::kWinLow : sim::vm::kWinHigh;
    uint32_t nstubs = uint32_t(plan.get("stubs", 2));
    for (uint32_t i = 0; i < nstubs; i++) { int win = (plan.get("stub_far_mask", 0) >> i) & 1 ? other_window : code_window; make_stub(w, win, uint32_t(1000 + r.below(100000)), uint32_t(r.below(4096))); }
    { void* page = sim::vm::harness_map((plan.get("tail_far", 0) ? other_window : code_window), 4096, 7); if (page) { w.ret_stub_page = page; w.ret_stub = static_cast<uint8_t*>(page) + 64; w.ret_stub[0] = 0xC3; } }
    uint32_t ndata = uint32_t(plan.get("datas", 1));
    for (uint32_t i = 0; i < ndata; i++) { void* page = sim::vm::harness_map(sim::vm::kWinLow, 4096, 3); if (page) { uint64_t v = r.below(1u << 30); uint64_t* slot = static_cast<uint64_t*>(page) + r.below(500); *slot = v; w.datas.push_back(Data{page, slot, v}); } }

    typedef uint64_t (*Fn)();
    CodeHolder code;
    Environment env(Arch::kX64);
    void* own_map = nullptr; size_t own_size = 1u << 17;
    uint64_t base = Globals::kNoBaseAddress;
    if (variant != 0) {
      own_map = sim::vm::harness_map(code_window, own_size, 7);
      SIM_CHECK(own_map, "harness:map", "could not map memory for the relocated code");
      if (variant == 1) base = uint64_t(uintptr_t(own_map));
    }
    SIM_CHECK(code.init(env, base) == Error::kOk, "c04:setup", "init failed");
    x86::Assembler a(&code);
    Built b = build_program(plan, w, code, a);
    SIM_CHECK(b.err == Error::kOk, "c04:setup", "building the program failed: %u", unsigned(b.err));
    sim::logf("variant=%d window=%d stubs=%zu datas=%zu forced_rel=%zu expected=%llu relocs=%zu", variant, code_window, w.stubs.size(), w.datas.size(), b.forced_rel_sites.size(), (unsigned long long)b.expected, code.reloc_entries().size());

    Fn fn = nullptr;
    Error err = Error::kOk;
    uint64_t final_base = 0;
    std::unique_ptr<JitRuntime> rt;
    if (variant == 0) {
      rt.reset(new JitRuntime());
      size_t before = rt->allocator().statistics().allocation_count();
      err = rt->add(&fn, &code);
      if (err != Error::kOk) SIM_CHECK(rt->allocator().statistics().allocation_count() == before && fn == nullptr, "c04:failed-add-leaks-span", "JitRuntime::add failed with %u but left an allocation accounted", unsigned(err));
      final_base = uint64_t(uintptr_t(fn));
    }
    else {
      final_base = uint64_t(uintptr_t(own_map));
      err = code.flatten();
      if (err == Error::kOk) err = code.resolve_cross_section_fixups();
      size_t estimated = code.code_size();
      size_t reserved_table = code.has_address_table_section() ? size_t(code.address_table_section()->virtual_size()) : 0;
      CodeHolder::RelocationSummary summary{};
      if (err == Error::kOk) err = code.relocate_to_base(final_base, &summary);
      if (err == Error::kOk) {
        size_t size = code.code_size();
        size_t used_table = code.has_address_table_section() ? code.address_table_section()->buffer_size() : 0;
        bool table_last = code.has_address_table_section() && code.sections_by_order()[code.section_count() - 1] == code.address_table_section();
        // the size estimated before relocation is never smaller than the size after it; the reported reduction is the
        // part of the reserved address table that turned out not to be needed (only reclaimable when the table is last)
        SIM_CHECK(estimated >= size, "c04:relocation-summary", "estimated size %zu is smaller than the final size %zu", estimated, size);
        SIM_CHECK(summary.code_size_reduction == (table_last ? reserved_table - used_table : 0), "c04:relocation-summary", "reserved address table %zu bytes, used %zu, table %s last: reported reduction %zu", reserved_table, used_table,
                  table_last ? "is" : "is not", summary.code_size_reduction);
        SIM_CHECK(size <= own_size, "harness:map", "code too large");
        err = code.copy_flattened_data(own_map, own_size, CopySectionFlags::kPadSectionBuffer);
        fn = reinterpret_cast<Fn>(own_map);
      }
    }
    // expectation for forced-relative operands: reachable from where the instruction ends up?
    bool any_unreachable = false;
    uint64_t text_offset = code.text_section()->offset();
    for (auto& site : b.forced_rel_sites) if (final_base && !reachable_rel32(final_base + text_offset + site.first, site.second)) any_unreachable = true;
    if (variant != 0 || err == Error::kOk) { /* final_base is known */ }
    if (err != Error::kOk) {
      bool fault = sim::run_faults_fired_total() > 0;
      // With JitRuntime::add the base is only known to the allocator; a failure is legitimate exactly when some
      // forced-relative operand exists whose target may be out of reach (data lives below 2 GiB, code possibly high).
      bool could_be_unreachable = !b.forced_rel_sites.empty() && (variant == 0 ? code_window != sim::vm::kWinLow : any_unreachable);
      SIM_CHECK(fault || could_be_unreachable, "c04:relocation-failed", "installing / relocating the code failed with error %u although every target is reachable", unsigned(err));
      sim::count(fault ? "c04.probe.failed_under_fault" : "c04.probe.unreachable_target_reported");
      sim::logf("install failed: err=%u", unsigned(err));
    }
    else {
      SIM_CHECK(!any_unreachable, "c04:unreachable-target-accepted", "a forced RIP-relative operand whose target is more than 2 GiB away from base %#llx was relocated without an error (wrapped displacement)", (unsigned long long)final_base);
      // installed bytes are exactly the relocated image
      size_t size = code.code_size();
      std::vector<uint8_t> img(size);
      SIM_CHECK(code.copy_flattened_data(img.data(), size, CopySectionFlags::kPadSectionBuffer) == Error::kOk, "c04:copy", "copy_flattened_data failed");
      SIM_CHECK(memcmp(reinterpret_cast<void*>(fn), img.data(), size) == 0, "c04:installed-image-differs", "bytes in executable memory differ from the relocated image");
      if (rt) {
        // the whole image belongs to the span the runtime obtained for it (otherwise the next add() overwrites its tail)
        JitAllocator::Span sp;
        SIM_CHECK(rt->allocator().query(Out(sp), reinterpret_cast<void*>(fn)) == Error::kOk && sp.size() >= size, "c04:installed-span-too-small", "the relocated image has %zu bytes but the span JitRuntime::add() obtained for it has %zu", size, sp.size());
      }
      SIM_CHECK(code.base_address() == final_base, "c04:base-address", "holder reports base %#llx, code lives at %#llx", (unsigned long long)code.base_address(), (unsigned long long)final_base);
      uint64_t got = fn();
      sim::logf("executed at %#llx -> %llu", (unsigned long long)final_base, (unsigned long long)got);
      SIM_CHECK(got == b.expected, "c04:wrong-target", "code relocated to %#llx (variant %d) returned %llu, the model expects %llu: an absolute reference designates the wrong target", (unsigned long long)final_base, variant, (unsigned long long)got,
                (unsigned long long)b.expected);
      sim::mark_nontrivial();
      if (code.has_address_table_section() && code.address_table_section()->buffer_size() > 0) sim::count("c04.probe.address_table_used");
      bool far_stub = false; for (auto& s : w.stubs) if (s.window != code_window) far_stub = true;
      if (far_stub) sim::count("c04.probe.far_stub");
      if (!b.forced_rel_sites.empty()) sim::count("c04.probe.forced_rel_reachable");
      if (rt) { SIM_CHECK(rt->release(fn) == Error::kOk, "c04:release", "release failed"); }
    }
    rt.reset();
    if (own_map) sim::vm::harness_unmap(own_map, own_size);
  }
  sim::end_op();
  sim::add_steps(plan.ops.size());
  sim::vm::arm(false); sim::heap::arm(false);
  SIM_CHECK(sim::vm::live_mappings_this_run() == 0, "c04:leak-vm", "mappings left:%s", sim::vm::describe_leaks().c_str());
}

Plan generate_sim(uint64_t seed, bool thorough) {
  Plan p;
  Rng cfg = sim::stream(seed, "cfg");
  Rng r = sim::stream(seed, "plan");
  int window = int(cfg.below(sim::vm::kWinCount));
  if (!sim::vm::window_available(window) || window == sim::vm::kWinMid) window = int(cfg.below(2));
  p.set("window", window);
  p.set("policy", int64_t(cfg.below(sim::vm::kPolicyCount)));
  p.set("variant", int64_t(cfg.below(3)));
  p.set("stubs", int64_t(1 + cfg.below(4)));
  p.set("stub_far_mask", int64_t(cfg.below(16)));
  p.set("tail_jump", int64_t(cfg.below(2)));
  p.set("tail_far", int64_t(cfg.below(2)));
  p.set("datas", int64_t(1 + cfg.below(3)));
  p.set("data_section", int64_t(cfg.below(2)));
  p.set("tail_section", int64_t(cfg.below(2)));
  p.set("fn_section", int64_t(cfg.below(2)));
  p.set("tables_early", int64_t(cfg.below(2)));
  p.set("data_first", int64_t(cfg.below(2)));
  p.set("shift", int64_t(cfg.below(4)));
  size_t n = size_t(1 + r.below(thorough ? 24 : 12));
  bool allow_forced_rel = cfg.chance(1, 3);
  for (size_t i = 0; i < n; i++) {
    Op op;
    static const uint16_t ks[] = {kCallStub, kCallStub, kCallStub, kLocalTable, kRipData, kAbsData, kRelData, kPad, kPtrData};
    op.kind = r.pick(ks);
    if (op.kind == kRelData && !allow_forced_rel) op.kind = kAbsData;
    op.a[0] = int64_t(r.next() & 0x7fffffffffll); op.a[1] = int64_t(r.below(100000));
    p.ops.push_back(op);
  }
  if (cfg.chance(1, 10) && !p.ops.empty()) p.ops[0].faults.push_back(sim::Fault{sim::kFaultMmap, uint32_t(cfg.below(3)), 0});
  return p;
}

// ---------------------------------------------------------------------------------------------------------------
// Non-simulation leg: field decoder for x86-32 / x86-64 / AArch64 on arbitrary 64-bit bases
// ---------------------------------------------------------------------------------------------------------------

static const uint64_t kBases[] = {0x0, 0x1000, 0x7ffff000ull, 0x80000000ull, 0xfffff000ull, 0x100000000ull, 0x7ffffffff000ull, 0x800000000000ull, 0x7ffffffffffff000ull, 0x8000000000000000ull, 0xfffffffffff00000ull};

// Where does a call/jmp/jcc that starts at image offset `start` and ends at `end` go? Returns false when the bytes are
// none of the encodings the assembler / relocator produce for an absolute target.
bool decode_branch(const std::vector<uint8_t>& img, size_t size, size_t start, size_t end, uint64_t base, bool is64, size_t addrtab_off, uint64_t* designated, bool* via_table) {
  *via_table = false;
  const uint8_t* p = img.data() + start;
  size_t len = end - start;
  // prefixes: branch hints (2E / 3E), and in 64-bit mode REX bytes (a forced one, and the one reserved so that the
  // instruction can be patched into a jump through the address table)
  while (len >= 1 && (p[0] == 0x2E || p[0] == 0x3E || (is64 && (p[0] & 0xF0) == 0x40))) { p++; len--; }
  int64_t rel; uint64_t mask = is64 ? ~0ull : 0xffffffffull;
  if (len == 5 && (p[0] == 0xE8 || p[0] == 0xE9)) { int32_t r; memcpy(&r, p + 1, 4); rel = r; }
  else if (len == 6 && p[0] == 0x0F && (p[1] & 0xF0) == 0x80) { int32_t r; memcpy(&r, p + 2, 4); rel = r; }
  else if (len == 2 && (p[0] == 0xEB || (p[0] & 0xF0) == 0x70)) rel = int8_t(p[1]);
  else if (is64 && len == 6 && p[0] == 0xFF && (p[1] == 0x15 || p[1] == 0x25)) {
    int32_t r; memcpy(&r, p + 2, 4);
    size_t slot_off = size_t(int64_t(end) + r);
    SIM_CHECK(slot_off + 8 <= size && slot_off >= addrtab_off && addrtab_off != 0, "c04:address-table-slot", "call/jmp through the address table points to image offset %zu, outside the table", slot_off);
    memcpy(designated, img.data() + slot_off, 8);
    *via_table = true;
    return true;
  }
  else return false;
  *designated = (base + uint64_t(end) + uint64_t(rel)) & mask;
  return true;
}

void execute_decode(const Plan& plan) {
  int target = int(plan.get("target", 0));   // 0 x86-32, 1 x86-64, 2 a64
  Arch arch = target == 0 ? Arch::kX86 : target == 1 ? Arch::kX64 : Arch::kAArch64;
  uint64_t base = plan.get("base_index", 0) < 11 ? kBases[plan.get("base_index", 0)] + uint64_t(plan.get("base_jitter", 0)) * 16 : uint64_t(plan.get("base_raw", 0));
  if (target == 0) base &= 0xffffffffull;
  bool known = plan.get("known_base", 0) != 0;
  sim::heap::arm(true);
  sim::begin_op(Op(), 0);
  {
    CodeHolder code;
    SIM_CHECK(code.init(Environment(arch), known ? base : Globals::kNoBaseAddress) == Error::kOk, "c04:setup", "init failed");
    // kind 0 call/jmp/jcc to an absolute target, 1 embedded address of a label (size 4/8), 2 abs32 memory operand [label+disp]
    struct Site { int kind; uint32_t section_id; size_t start, end; uint64_t target; Label label; bool jcc; };
    std::vector<Site> sites;
    std::vector<Label> labels;
    std::unique_ptr<BaseEmitter> e;
    if (target == 2) e.reset(new a64::Assembler(&code)); else e.reset(new x86::Assembler(&code));
    BaseAssembler& a = static_cast<BaseAssembler&>(*e);
    size_t ptr_size = target == 0 ? 4 : 8;
    Section* data_section = nullptr;
    if (plan.get("bind_section", 0)) SIM_CHECK(code.new_section(Out(data_section), ".data", SIZE_MAX, SectionFlags::kNone, 8, 1) == Error::kOk, "c04:setup", "new_section failed");
    auto nops = [&](size_t n) { for (size_t i = 0; i < n; i++) { if (target == 2) static_cast<a64::Assembler&>(a).nop(); else static_cast<x86::Assembler&>(a).nop(); } };
    // embedded addresses use the pointer size or - drawn per site - an explicit 4-byte field, which on a 64-bit target can only
    // hold addresses below 4 GiB (anything else must be reported by relocate_to_base())
    Rng field_rng = sim::stream(plan.seed, "field");
    auto embed_site = [&](Label l) { size_t fs = (target != 0 && field_rng.chance(1, 4)) ? 4 : ptr_size; size_t at = a.offset(); if (a.embed_label(l, fs) == Error::kOk) sites.push_back(Site{1, a.current_section()->section_id(), at, at + fs, 0, l, false}); };
    auto mem_site = [&](Label l, int64_t disp) { size_t at = a.offset(); if (static_cast<x86::Assembler&>(a).mov(x86::eax, x86::dword_ptr(l, int32_t(disp))) == Error::kOk) sites.push_back(Site{2, a.current_section()->section_id(), at, a.offset(), uint64_t(disp), l, false}); };
    bool unreachable_jcc_possible = false;
    auto emit_program = [&]() {
    for (const Op& op : plan.ops) {
      if (target != 2) {
        x86::Assembler& xa = static_cast<x86::Assembler&>(a);
        switch (op.kind) {
          case kCallStub: {
            int form = int(op.a[2] % 5);   // 0,1 call  2,3 jmp  4 jcc
            // Some of the branches are emitted into the second section: its offset is unknown until flatten(), so even with
            // a known base the assembler cannot resolve the displacement itself and has to leave it to the relocation.
            bool elsewhere = data_section && (op.a[3] / 24) % 3 == 0;
            if (elsewhere) { a.section(data_section); sim::count("c04.probe.absolute_branch_in_second_section"); }
            bool known_here = known && !elsewhere;
            uint32_t site_section = a.current_section()->section_id();
            size_t before = a.offset();
            uint64_t t;
            static const int64_t kDeltas[] = {-0x1000, -64, -7, -6, -5, -2, -1, 0, 1, 2, 5, 6, 7, 64, 0x1000};
            switch (int(op.a[3] % 6)) {
              default: t = base + uint64_t(int64_t(int32_t(op.a[0] & 0x3fffffff)) - 0x10000000); break;
              case 2: t = (uint64_t(op.a[0]) * 0x9E3779B1ull) & 0x7fffffffffffull; break;
              // around the two ends of the rel32 range, measured from the base, from the instruction and from its end
              case 3: t = base - 0x80000000ull + uint64_t(kDeltas[size_t(op.a[0] >> 8) % 15]) + ((op.a[0] & 1) ? uint64_t(before) : 0) + ((op.a[0] & 2) ? 5u : 0u); break;
              case 4: t = base + 0x7fffffffull + uint64_t(kDeltas[size_t(op.a[0] >> 8) % 15]) + ((op.a[0] & 1) ? uint64_t(before) : 0) + ((op.a[0] & 2) ? 5u : 0u); break;
              case 5: t = base + uint64_t(before) + uint64_t(int64_t(op.a[0] % 300) - 150); break;   // short forms when the base is known
            }
            if (target == 0) t &= 0xffffffffull;
            // a prefix in front of the branch: a forced REX (64-bit), or a branch hint (jcc with predicted jumps enabled)
            int prefix = int((op.a[3] / 6) % 4);
            size_t prefix_len = (prefix == 1 && target == 1) || (prefix >= 2 && form == 4) ? 1 : 0;
            if (prefix == 1 && target == 1) { xa.rex(); sim::count("c04.probe.branch_with_rex_prefix"); }
            else if (prefix >= 2 && form == 4) { xa.add_encoding_options(EncodingOptions::kPredictedJumps); if (prefix == 2) xa.taken(); else xa.not_taken(); sim::count("c04.probe.branch_with_hint_prefix"); }
            Error er = form < 2 ? xa.call(Imm(t)) : form < 4 ? xa.jmp(Imm(t)) : xa.jz(Imm(t));
            xa.clear_encoding_options(EncodingOptions::kPredictedJumps);
            if (er == Error::kOk) { sites.push_back(Site{0, site_section, before, a.offset(), t, Label(), form == 4}); if (form == 4 && target == 1 && !known_here) unreachable_jcc_possible = true; }
            else {
              // only a conditional jump assembled with a known base may be refused, and only when its target is out of reach
              bool legit = form == 4 && target == 1 && known_here && !reachable_rel32(base + before + 6 + prefix_len, t);
              SIM_CHECK(legit, "c04:reachable-target-refused", "%s onto %#llx at offset %zu was refused with error %u (base %s)", form < 2 ? "call" : form < 4 ? "jmp" : "jz", (unsigned long long)t, before, unsigned(er), known ? "known" : "unknown");
              sim::count("c04.probe.unreachable_refused_at_emit");
            }
            if (elsewhere) a.section(code.text_section());
            break;
          }
          case kLocalTable: { Label l = a.new_label(); labels.push_back(l); embed_site(l); break; }
          case kRipData: {
            if (target != 0) break;
            if (op.a[1] & 0x200) {
              // 32-bit mode has no RIP-relative addressing: a [rip + disp] operand becomes an absolute address (the end of the
              // instruction + disp) through a relocation - also when an immediate follows the address field
              int32_t disp = int32_t(op.a[1] & 0xff) * ((op.a[1] & 0x100) ? -1 : 1);
              x86::Mem m = x86::dword_ptr(x86::rip, disp);
              size_t at = a.offset(); Error er; size_t imm_size;
              switch ((op.a[1] >> 10) % 4) { case 0: er = xa.mov(x86::eax, m); imm_size = 0; break; case 1: er = xa.add(m, Imm(5)); imm_size = 1; break; case 2: er = xa.mov(m, Imm(0x11223344)); imm_size = 4; break; default: er = xa.imul(x86::ecx, m, Imm(1000)); imm_size = 4; break; }
              if (er == Error::kOk) { sites.push_back(Site{8, a.current_section()->section_id(), at, a.offset(), uint64_t(uint16_t(int16_t(disp))) | (uint64_t(imm_size) << 48), Label(), imm_size != 0}); sim::count("c04.probe.decode_rip_operand_on_x86_32"); }
              break;
            }
            Label l = a.new_label(); labels.push_back(l); mem_site(l, (op.a[1] & 0x100) ? -int64_t(op.a[1] & 0xff) : int64_t(op.a[1] & 0xff)); break;
          }
          default: {
            nops(size_t(op.a[0] % 17));
            // a jump that only has the rel8 form, onto a label that is bound later - possibly in the other section, where
            // only resolve_cross_section_fixups() learns the distance
            if ((op.a[1] % 5) == 0) { Label l = a.new_label(); labels.push_back(l); size_t at = a.offset(); xa.short_(); if (xa.jmp(l) == Error::kOk) sites.push_back(Site{7, a.current_section()->section_id(), at, a.offset(), 0, l, false}); sim::count("c04.probe.decode_rel8_forward_reference"); if (op.a[1] % 2) nops(size_t(op.a[0] % 260)); /* sometimes out of reach */ }
            break;
          }
        }
      }
      else {
        a64::Assembler& aa = static_cast<a64::Assembler&>(a);
        switch (op.kind) {
          case kLocalTable: { Label l = a.new_label(); labels.push_back(l); embed_site(l); break; }
          case kCallStub: {
            // b / bl / adr with an ABSOLUTE target given as an immediate: PC-relative fields that depend on the base
            int form = int(op.a[2] % 4);   // 0 b, 1 bl, 2 adr, 3 adrp (a 4 KiB page, relative to the page of the instruction)
            bool elsewhere = data_section && (op.a[3] / 24) % 3 == 0;   // in the second section (offset unknown while assembling)
            if (elsewhere) { a.section(data_section); a.align(AlignMode::kZero, 4); sim::count("c04.probe.absolute_branch_in_second_section"); }
            uint32_t site_section = a.current_section()->section_id();
            size_t before = a.offset();
            int64_t reach = form == 2 ? (1 << 19) : form == 3 ? (1 << 19) - 1 /* pages; the relocator limits every pc-relative value to +-2 GiB, half of what adrp could reach */ : (1 << 26);
            if (elsewhere) reach /= 2;   // the section offset is added to the distance
            uint64_t t = base + uint64_t(before) + uint64_t((int64_t(uint64_t(op.a[0]) % uint64_t(2 * reach)) - reach) & ~int64_t(form == 2 ? 0 : 3));
            if (form == 3) t = ((base + uint64_t(before)) & ~uint64_t(4095)) + (uint64_t(int64_t(uint64_t(op.a[0]) % uint64_t(2 * reach)) - reach) << 12);
            Error er = form == 0 ? aa.b(Imm(t)) : form == 1 ? aa.bl(Imm(t)) : form == 2 ? aa.adr(a64::x(1), Imm(t)) : aa.adrp(a64::x(1), Imm(t));
            if (er == Error::kOk) sites.push_back(Site{3 + form, site_section, before, a.offset(), t, Label(), false});
            else SIM_CHECK(false, "c04:reachable-target-refused", "a64 %s onto %#llx (within reach of base %#llx) was refused with error %u", form == 0 ? "b" : form == 1 ? "bl" : form == 2 ? "adr" : "adrp", (unsigned long long)t, (unsigned long long)base, unsigned(er));
            if (elsewhere) a.section(code.text_section());
            break;
          }
          default: nops(size_t(op.a[0] % 9)); break;
        }
      }
    }
    // bind the labels at drawn positions (possibly in a second section), then reference some of them again: backward
    // references, from the section the label lives in and from the other one
    Rng r = sim::stream(plan.seed, "bind");
    if (data_section) a.section(data_section);
    for (auto& l : labels) { nops(size_t(r.below(5))); if (target == 2) a.align(AlignMode::kZero, 4); a.bind(l); uint32_t v = uint32_t(r.next()); a.embed(&v, 4); }
    for (auto& l : labels) {
      if (!r.chance(1, 2)) continue;
      if (data_section) a.section(r.chance(1, 2) ? data_section : code.text_section());
      if (target == 2) a.align(AlignMode::kZero, 4);
      if (target == 0 && r.chance(1, 2)) mem_site(l, int64_t(r.below(400)) - 200); else embed_site(l);
      sim::count("c04.probe.decode_backward_reference");
    }
    };
    // Optionally the holder has a history: the same program was assembled and relocated on it before, then the holder was
    // recycled (reinit(), or reset() + init() + attach()). Nothing of that - address-table entries in particular - may
    // influence what the second generation designates.
    int prehistory = int(plan.get("prehistory", 0));
    if (prehistory) {
      emit_program();
      Error pe = code.flatten();
      if (pe == Error::kOk) pe = code.resolve_cross_section_fixups();
      if (pe == Error::kOk) pe = code.relocate_to_base(base);
      sim::logf("prehistory %d: first generation relocated with err=%u, %zu sites", prehistory, unsigned(pe), sites.size());
      if (prehistory == 1) SIM_CHECK(code.reinit() == Error::kOk, "c04:setup", "reinit failed");
      else { code.reset(ResetPolicy::kSoft); SIM_CHECK(code.init(Environment(arch), known ? base : Globals::kNoBaseAddress) == Error::kOk && code.attach(e.get()) == Error::kOk, "c04:setup", "init / attach after reset failed"); }
      sites.clear(); labels.clear(); unreachable_jcc_possible = false; data_section = nullptr;
      field_rng = sim::stream(plan.seed, "field");
      if (plan.get("bind_section", 0)) SIM_CHECK(code.new_section(Out(data_section), ".data", SIZE_MAX, SectionFlags::kNone, 8, 1) == Error::kOk, "c04:setup", "new_section failed");
      sim::count("c04.probe.decode_on_recycled_holder");
    }
    emit_program();
    Error err = code.flatten();
    if (err == Error::kOk) err = code.resolve_cross_section_fixups();
    // (relocate_to_base() is documented as "should never be called more than once": relocation ORs into zero fields.)
    if (err == Error::kOk) err = code.relocate_to_base(base);
    sim::logf("decode target=%d base=%#llx known=%d sites=%zu err=%u", target, (unsigned long long)base, int(known), sites.size(), unsigned(err));
    if (err == Error::kOk) {
      size_t size = code.code_size();
      std::vector<uint8_t> img(size + 8, 0);
      SIM_CHECK(code.copy_flattened_data(img.data(), size, CopySectionFlags::kPadSectionBuffer) == Error::kOk, "c04:copy", "copy failed");
      uint64_t mask = target == 0 ? 0xffffffffull : ~0ull;
      size_t addrtab_off = code.has_address_table_section() ? size_t(code.address_table_section()->offset()) : 0;
      for (auto& s : sites) {
        size_t sec_off = size_t(code.section_by_id(s.section_id)->offset());
        if (s.kind == 0) {
          uint64_t designated = 0; bool via_table = false;
          bool ok = decode_branch(img, size, sec_off + s.start, sec_off + s.end, base, target == 1, addrtab_off, &designated, &via_table);
          SIM_CHECK(ok, "c04:wrong-target", "the %zu bytes at offset %zu are not a call/jmp/jcc encoding after relocation to %#llx", s.end - s.start, s.start, (unsigned long long)base);
          if (via_table) sim::count("c04.probe.decode_address_table");
          SIM_CHECK(designated == (s.target & mask), "c04:wrong-target", "call/jmp at offset %zu..%zu relocated to base %#llx (base %s at assembly time) designates %#llx%s, requested %#llx", s.start, s.end, (unsigned long long)base,
                    known ? "known" : "unknown", (unsigned long long)designated, via_table ? " (address table)" : "", (unsigned long long)(s.target & mask));
        }
        else if (s.kind >= 3 && s.kind <= 6) {
          // AArch64 b / bl (imm26 * 4) and adr (immhi:immlo), relative to the address of the instruction itself
          uint32_t word; memcpy(&word, img.data() + sec_off + s.start, 4);
          int64_t rel;
          if (s.kind >= 5) { uint32_t immlo = (word >> 29) & 3, immhi = (word >> 5) & 0x7ffff; rel = int64_t(uint64_t(immhi << 2 | immlo) << 43) >> 43; }
          else rel = (int64_t(uint64_t(word & 0x3ffffff) << 38) >> 38) * 4;
          uint64_t designated = base + sec_off + s.start + uint64_t(rel);
          if (s.kind == 6) designated = ((base + sec_off + s.start) & ~uint64_t(4095)) + (uint64_t(rel) << 12);
          SIM_CHECK(designated == s.target, "c04:wrong-target", "a64 %s at offset %zu relocated to base %#llx (base %s at assembly time) designates %#llx, requested %#llx", s.kind == 3 ? "b" : s.kind == 4 ? "bl" : s.kind == 5 ? "adr" : "adrp", s.start,
                    (unsigned long long)base, known ? "known" : "unknown", (unsigned long long)designated, (unsigned long long)s.target);
          sim::count("c04.probe.decode_a64_branch");
        }
        else if (s.kind == 8) {
          // x86-32 [rip + disp]: the 4-byte address field sits in front of the trailing immediate
          size_t imm_size = size_t(s.target >> 48) & 0xff; int64_t disp = int64_t(int16_t(s.target & 0xffff));
          uint32_t field; memcpy(&field, img.data() + sec_off + s.end - imm_size - 4, 4);
          uint32_t want = uint32_t(base + sec_off + s.end + uint64_t(disp));
          SIM_CHECK(field == want, "c04:wrong-target", "x86-32 [rip%+lld] operand of the instruction at offset %zu..%zu (%zu immediate bytes behind the address) relocated to base %#llx designates %#x, expected %#x", (long long)disp, s.start, s.end, imm_size,
                    (unsigned long long)base, field, want);
        }
        else if (s.kind == 7) {
          // rel8 jump: the byte behind the opcode, relative to the end of the instruction
          uint64_t want = base + code.label_offset_from_base(s.label);
          int64_t dist = int64_t(want - (base + uint64_t(sec_off) + uint64_t(s.end)));   /* (unsigned: bases around 2^63 are in the plan) */
          SIM_CHECK(dist >= -128 && dist <= 127, "c04:unreachable-target-accepted", "a rel8-only jump at offset %zu onto a label %lld bytes away was resolved and relocated without an error", s.start, (long long)dist);
          SIM_CHECK(img[sec_off + s.start] == 0xEB && int64_t(int8_t(img[sec_off + s.end - 1])) == dist, "c04:wrong-target", "short jmp at offset %zu designates %+d, the label is %+lld bytes behind it", s.start, int(int8_t(img[sec_off + s.end - 1])), (long long)dist);
        }
        else if (s.kind == 1) {
          size_t fs = s.end - s.start;
          uint64_t v = 0; memcpy(&v, img.data() + sec_off + s.start, fs);
          uint64_t want = (base + code.label_offset_from_base(s.label)) & mask;
          SIM_CHECK(fs == 8 || want <= 0xffffffffull, "c04:unreachable-target-accepted", "a 4-byte embedded address of a label that ends up at %#llx was relocated without an error (truncated to %#llx)", (unsigned long long)want, (unsigned long long)v);
          if (fs == 4) sim::count("c04.probe.decode_abs32_field_on_64bit");
          SIM_CHECK(v == want, "c04:wrong-target", "embedded label address at offset %zu of section %u is %#llx after relocation to %#llx, expected %#llx", s.start, s.section_id, (unsigned long long)v, (unsigned long long)base, (unsigned long long)want);
        }
        else {
          uint32_t v; memcpy(&v, img.data() + sec_off + s.end - 4, 4);
          uint64_t want = (base + code.label_offset_from_base(s.label) + s.target) & mask;
          SIM_CHECK(v == uint32_t(want), "c04:wrong-target", "[label+%llu] operand ending at offset %zu holds %#x after relocation to %#llx, expected %#llx", (unsigned long long)s.target, s.end, v, (unsigned long long)base, (unsigned long long)want);
        }
      }
      if (!sites.empty()) sim::mark_nontrivial();
      sim::count("c04.decode.sites", sites.size());
    }
    else {
      // A relocation error needs a reason: a conditional jump (which cannot be routed through the address table) whose
      // target is out of reach from this base.
      bool legit = false;
      // a rel8-only jump whose label ended up out of reach (resolve_cross_section_fixups() reports it; within one section it is
      // bind() that does)
      for (auto& s : sites) if (s.kind == 7 && code.is_label_bound(s.label)) { int64_t dist = int64_t(code.label_offset_from_base(s.label)) - int64_t(code.section_by_id(s.section_id)->offset() + s.end); if (dist < -128 || dist > 127) { legit = true; sim::count("c04.probe.decode_rel8_out_of_reach_reported"); } }
      if (unreachable_jcc_possible) for (auto& s : sites) if (s.kind == 0 && s.jcc && !reachable_rel32(base + code.section_by_id(s.section_id)->offset() + s.end, s.target)) legit = true;
      // ... or a 4-byte embedded address on a 64-bit target whose label ends up at or above 4 GiB
      if (target != 0) for (auto& s : sites) if (s.kind == 1 && s.end - s.start == 4 && ((base + code.label_offset_from_base(s.label)) > 0xffffffffull || base + code.label_offset_from_base(s.label) < base)) { legit = true; sim::count("c04.probe.decode_abs32_field_unreachable_reported"); }
      // (x86-32: an image that would extend past the end of the 4 GiB address space cannot be placed there at all.)
      // ([label+disp] operands use displacements up to 255 here, which may cross the end as well.)
      if (target == 0 && (base + code.code_size() + 256 > 0x100000000ull || base < 256 /* or a negative displacement reaches below address 0 */)) { legit = true; sim::count("c04.probe.decode_image_wraps_address_space"); }
      SIM_CHECK(legit, "c04:relocation-failed", "relocate_to_base(%#llx) failed with error %u although every target can be reached (directly or through the address table)", (unsigned long long)base, unsigned(err));
      sim::count("c04.probe.decode_relocation_error");
    }
  }
  sim::end_op();
  sim::add_steps(plan.ops.size());
  sim::heap::arm(false);
}

Plan generate_decode(uint64_t seed, bool thorough) {
  Plan p;
  Rng cfg = sim::stream(seed, "cfg");
  Rng r = sim::stream(seed, "plan");
  p.set("target", int64_t(cfg.below(3)));
  p.set("base_index", int64_t(cfg.below(12)));
  p.set("base_jitter", int64_t(cfg.below(4096)));
  p.set("base_raw", int64_t(cfg.next() & 0x7ffffffffffff000ll));
  p.set("known_base", int64_t(cfg.below(2)));
  p.set("bind_section", int64_t(cfg.below(2)));
  p.set("prehistory", int64_t(cfg.chance(1, 3) ? 1 + cfg.below(2) : 0));
  size_t n = size_t(1 + r.below(thorough ? 30 : 14));
  for (size_t i = 0; i < n; i++) {
    Op op; static const uint16_t ks[] = {kCallStub, kCallStub, kLocalTable, kRipData, kPad};
    op.kind = r.pick(ks); op.a[0] = int64_t(r.next() & 0x7fffffffffffll); op.a[1] = int64_t(r.below(100000)); op.a[2] = int64_t(r.below(5)); op.a[3] = int64_t(r.below(6) + 6 * (r.chance(1, 3) ? 1 + r.below(3) : 0));   /* second digit: prefix in front of the branch */
    p.ops.push_back(op);
  }
  return p;
}

void shrink(const Plan& p, std::vector<Plan>& out) {
  static const char* const zero_keys[] = {"policy", "shift", "tail_jump", "tail_far", "data_section", "tail_section", "fn_section", "tables_early", "stub_far_mask", "known_base", "base_jitter", "bind_section", "prehistory"};
  for (const char* k : zero_keys) if (p.get(k)) { Plan q = p; q.set(k, 0); out.push_back(q); }
}

const sim::Scenario kSimA = {"C04", "relocate-execute", "asan", 300000, 4000000, generate_sim, execute_sim, op_name, shrink, nullptr};
const sim::Scenario kSimP = {"C04", "relocate-execute-plain", "plain", 200000, 3000000, generate_sim, execute_sim, op_name, shrink, nullptr};
const sim::Scenario kDec = {"C04", "decode-fields", "asan", 200000, 3000000, generate_decode, execute_decode, op_name, shrink, nullptr};
sim::Registrar r1(kSimA), r2(kSimP), r3(kDec);

const char* const kAssumptions[] = {
  "PARTIAL: only x86-64 code is executed (this host); x86-32 and AArch64 relocation, and bases that cannot be mapped (>= 2^47, around 2^63), are checked by recomputing targets from decoded fields ('decode-fields' scenario), which is generated testing rather than simulation and is reported separately in the scenario counts.",
  "Programs use a closed vocabulary whose result the model can compute (calls/jumps to absolute stub addresses, embedded label tables that are read back and called through, RIP-relative and absolute 32-bit data operands, forced RIP-relative operands onto absolute addresses); expression relocations (label deltas) are exercised by C16/C15 for residue and faults only.",
  nullptr};
const char* const kReal[] = {"asmjit x86::Assembler, CodeHolder::flatten/resolve_cross_section_fixups/relocate_to_base/copy_flattened_data, JitRuntime::add, JitAllocator, VirtMem; the relocated x86-64 code really runs on the host", nullptr};
const char* const kStub[] = {"placement of JIT blocks, of the harness' own code mapping, of call target stubs and of data pages (SimVM windows: below 2 GiB, 2^46..2^47, and - plain flavour - straddling 2^31 and 2^32)", "mmap faults during JitRuntime::add", nullptr};
const sim::PropInfo kInfo = {"C04", "exploration",
  "Simulation leg ('relocate-execute', asan and plain flavours): each run is one seed: placement window and policy for the code, 1..4 call-target stubs and a tail-jump stub placed in the same window or more than 2 GiB away, 1..3 data pages below 2 GiB, optional .data section and a user section ordered after .addrtab, variant (JitRuntime::add / base known at init / relocate later) and a program of 1..24 items from the closed vocabulary; the function is executed and its checksum compared with the model; installed bytes must equal the relocated image; the relocation summary must match the size change; unreachable forced-relative targets must produce an error. "
  "Non-simulation leg ('decode-fields'): x86-32 / x86-64 / AArch64 programs relocated to bases 0, 2^31, 2^32, 2^47, 2^63 (+/- jitter) and random 64-bit bases, targets recomputed from the rel32 / abs32 / abs64 fields and address-table slots. Non-trivial = code was executed (or at least one field decoded); distinct = distinct event-log hashes.",
  kAssumptions, kReal, kStub};
sim::PropInfoRegistrar reginfo(kInfo);

} // namespace
