// C11 - JIT memory management and independent code generation are thread-safe.
//
// Seeded schedules of 2..16 real threads parked at intercepted synchronisation points (SimSched). Oracles: every
// operation's result equals the C09 interval model advanced in the order in which the allocator's critical sections
// were entered (linearisation in lock order); stamps of spans a thread owns survive; H2 probes find the lock held;
// ThreadSanitizer (tsan flavour, same seeds, same scheduler) reports no data race; no deadlock.
#include "sim/sim.h"
#include "gen/prog.h"
#include "props/jitmodel.h"

#include <asmjit/core.h>
#include <asmjit/x86.h>
#include <asmjit/a64.h>

#include <string.h>
#include <stdlib.h>
#include <algorithm>
#include <memory>
#include <string>
#include <vector>

using namespace asmjit;
using sim::Op;
using sim::Plan;
using sim::Rng;

namespace {

enum OpKind : uint16_t { kAlloc, kRelease, kShrink, kQuery, kStats, kWriteFn, kAddCode, kReleaseCode, kCallCode, kGenerate, kOpCount };
const char* const kOpNames[kOpCount] = {"alloc", "release", "shrink", "query", "stats", "write_fn", "add_code", "release_code", "call_code", "generate"};
const char* op_name(uint16_t k) { return k < kOpCount ? kOpNames[k] : "?"; }

// ---------------------------------------------------------------------------------------------------------------
// Scenario A: one JitAllocator, N threads
// ---------------------------------------------------------------------------------------------------------------

enum EvType { kEvMap, kEvUnmap, kEvAlloc, kEvRelease, kEvShrink, kEvStats, kEvQuery };

struct Event {
  uint64_t cs; int sub; uint64_t order;
  EvType type;
  int tid;
  sim::vm::Mapping mapping;
  size_t requested; JitAllocator::Span span; uint64_t stamp;
  uintptr_t rx; size_t new_size, reported;
  JitAllocator::Statistics stats;
};

struct Held { JitAllocator::Span span; uintptr_t rx; uint64_t stamp; size_t size; };

struct WorldA {
  const Plan& plan;
  jitmodel::Model model;
  std::unique_ptr<JitAllocator> alloc;
  std::vector<Event> events;
  uint64_t order = 0;
  std::vector<std::vector<Held>> held;     // per thread
  std::vector<std::vector<const Op*>> ops; // per thread
  uint64_t stamp_counter = 1;
  const char* unlocked_site = nullptr;
  uint64_t unlocked_probes = 0;
  explicit WorldA(const Plan& p) : plan(p) {}
};

void vm_observer_a(void* ctx, bool mapped, const sim::vm::Mapping& m) {
  WorldA& w = *static_cast<WorldA*>(ctx);
  Event e{}; e.cs = sim::sched::active() ? sim::sched::current_cs() : 0; e.sub = mapped ? 0 : 2; e.order = w.order++; e.type = mapped ? kEvMap : kEvUnmap; e.tid = sim::sched::current_tid(); e.mapping = m;
  w.events.push_back(e);
}

void h2_observer_a(void* ctx, const void*, const char* site, int held) {
  WorldA& w = *static_cast<WorldA*>(ctx);
  if (held == 0) { w.unlocked_probes++; if (!w.unlocked_site) w.unlocked_site = site; }
}

void push_result(WorldA& w, Event e) {
  std::vector<uint64_t> css = sim::sched::take_cs_seqs();
  e.cs = css.empty() ? 0 : css.back();
  e.sub = 1; e.order = w.order++; e.tid = sim::sched::current_tid();
  w.events.push_back(e);
}

void write_stamp_held(const Held& h, uint32_t gran) { uint8_t* p = static_cast<uint8_t*>(h.span.rw()); for (size_t off = 0; off + 8 <= h.size; off += gran) { uint64_t v = h.stamp + off; memcpy(p + off, &v, 8); } }
void check_stamp_held(const Held& h, uint32_t gran, const char* when) {
  const uint8_t* p = reinterpret_cast<const uint8_t*>(h.rx);
  for (size_t off = 0; off + 8 <= h.size; off += gran) { uint64_t v; memcpy(&v, p + off, 8); SIM_CHECK(v == h.stamp + off, "c11:span-corrupted", "%s: span at %#zx (+%zu) owned by thread %d lost its contents at offset %zu", when, size_t(h.rx), h.size, sim::sched::current_tid(), off); }
}

void thread_body_a(int tid, void* arg) {
  WorldA& w = *static_cast<WorldA*>(arg);
  JitAllocator& a = *w.alloc;
  uint32_t gran = w.model.cfg.granularity;
  std::vector<Held>& mine = w.held[size_t(tid)];
  for (const Op* opp : w.ops[size_t(tid)]) {
    const Op& op = *opp;
    sim::sched::yield();
    (void)sim::sched::take_cs_seqs();
    switch (op.kind) {
      case kAlloc: {
        JitAllocator::Span span; Error err;
        { sim::AsmjitScope s; err = a.alloc(Out(span), size_t(op.a[0])); }
        sim::logf("t%d alloc %zu -> err=%u rx=%#zx size=%zu", tid, size_t(op.a[0]), unsigned(err), size_t(uintptr_t(span.rx())), span.size());
        SIM_CHECK(err == Error::kOk, "c11:alloc-failed", "alloc(%zu) failed with error %u in thread %d", size_t(op.a[0]), unsigned(err), tid);
        Held h{span, uintptr_t(span.rx()), (w.stamp_counter++) << 32, span.size()};
        Event e{}; e.type = kEvAlloc; e.requested = size_t(op.a[0]); e.span = span; e.stamp = h.stamp;
        push_result(w, e);
        sim::vm::Mapping m;
        SIM_CHECK(sim::vm::find_mapping(span.rx(), &m) && uintptr_t(span.rx()) + span.size() <= m.addr + m.size, "c11:outside-block", "alloc returned memory outside every mapped block");
        write_stamp_held(h, gran);
        check_stamp_held(h, gran, "after alloc");
        mine.push_back(h);
        break;
      }
      case kRelease: {
        if (mine.empty()) break;
        size_t i = size_t(op.a[0]) % mine.size();
        // favour the most recently allocated spans (they share bit-vector words with other threads' spans)
        if (op.a[1] & 1) i = mine.size() - 1;
        Held h = mine[i];
        check_stamp_held(h, gran, "before release");
        mine.erase(mine.begin() + long(i));
        Error err;
        { sim::AsmjitScope s; err = a.release(h.span.rx()); }
        sim::logf("t%d release %#zx -> err=%u", tid, size_t(h.rx), unsigned(err));
        SIM_CHECK(err == Error::kOk, "c11:release-failed", "release() of a span owned by thread %d failed with error %u", tid, unsigned(err));
        Event e{}; e.type = kEvRelease; e.rx = h.rx;
        push_result(w, e);
        break;
      }
      case kShrink: case kWriteFn: {
        if (mine.empty()) break;
        size_t i = (op.a[1] & 1) ? mine.size() - 1 : size_t(op.a[0]) % mine.size();
        Held& h = mine[i];
        size_t new_size = 1 + size_t(op.a[2]) % h.size;
        Error err;
        if (op.kind == kShrink) { sim::AsmjitScope s; err = a.shrink(h.span, new_size); }
        else {
          uint64_t stamp = (w.stamp_counter++) << 32;
          sim::AsmjitScope s;
          err = a.write(h.span, [&](JitAllocator::Span& sp) noexcept -> Error {
            uint8_t* p = static_cast<uint8_t*>(sp.rw());
            for (size_t off = 0; off + 8 <= sp.size(); off += gran) { uint64_t v = stamp + off; memcpy(p + off, &v, 8); }
            sp.shrink(new_size);
            return Error::kOk;
          });
          h.stamp = stamp;
        }
        sim::logf("t%d %s %#zx to %zu -> err=%u size=%zu", tid, op_name(op.kind), size_t(h.rx), new_size, unsigned(err), h.span.size());
        SIM_CHECK(err == Error::kOk, "c11:shrink-failed", "%s failed with error %u", op_name(op.kind), unsigned(err));
        Event e{}; e.type = kEvShrink; e.rx = h.rx; e.new_size = new_size; e.reported = h.span.size(); e.stamp = h.stamp;
        push_result(w, e);
        h.size = h.span.size();
        check_stamp_held(h, gran, "after shrink");
        break;
      }
      case kQuery: {
        if (mine.empty()) break;
        size_t i = (op.a[1] & 1) ? mine.size() - 1 : size_t(op.a[0]) % mine.size();
        Held& h = mine[i];
        JitAllocator::Span q; Error err;
        { sim::AsmjitScope s; err = a.query(Out(q), reinterpret_cast<void*>(h.rx)); }
        SIM_CHECK(err == Error::kOk, "c11:query-failed", "query() of a span owned by thread %d failed with error %u", tid, unsigned(err));
        SIM_CHECK(uintptr_t(q.rx()) == h.rx && q.rw() == h.span.rw() && q.size() == h.size, "c11:query-mismatch", "query(%#zx) returned rx=%#zx size=%zu, the owning thread expects size=%zu", size_t(h.rx), size_t(uintptr_t(q.rx())), q.size(), h.size);
        (void)sim::sched::take_cs_seqs();
        break;
      }
      case kStats: {
        JitAllocator::Statistics st;
        { sim::AsmjitScope s; st = a.statistics(); }
        Event e{}; e.type = kEvStats; e.stats = st;
        push_result(w, e);
        break;
      }
      default: break;
    }
    sim::add_steps(1);
  }
}

void execute_a(const Plan& plan) {
  WorldA w(plan);
  w.model.prefix = "c11";
  jitmodel::Cfg& cfg = w.model.cfg;
  cfg.requested_options = JitAllocatorOptions(uint32_t(plan.get("options", 0)));
  cfg.requested_block_size = uint32_t(plan.get("block_size", 0));
  cfg.requested_granularity = uint32_t(plan.get("granularity", 0));
  cfg.requested_pattern = 0x90909090u;
  cfg.derive(sim::vm::profile().hardened != 0);
  sim::heap::configure(0, 0, 0, plan.seed);
  sim::vm::configure(int(plan.get("window", 0)), int(plan.get("policy", 0)), 0, plan.seed);
  sim::vm::set_observer(vm_observer_a, &w);
  sim::heap::arm(true);
  sim::vm::arm(true);

  int n = int(plan.get("threads", 2));
  JitAllocator::CreateParams params; params.options = cfg.requested_options; params.block_size = cfg.requested_block_size; params.granularity = cfg.requested_granularity; params.fill_pattern = cfg.requested_pattern;
  { sim::AsmjitScope s; w.alloc.reset(new JitAllocator(&params)); }
  w.held.resize(size_t(n)); w.ops.resize(size_t(n));
  for (auto& op : plan.ops) w.ops[size_t(op.thread) % size_t(n)].push_back(&op);

  sim::sched::set_h2_observer(h2_observer_a, &w);
  sim::sched::run(n, thread_body_a, &w, plan.seed, int(plan.get("strategy", 0)));

  // ---- replay the history on the model in critical-section order ---------------------------------------------
  sim::begin_op(Op(), plan.ops.size());
  std::stable_sort(w.events.begin(), w.events.end(), [](const Event& a, const Event& b) { if (a.cs != b.cs) return a.cs < b.cs; if (a.sub != b.sub) return a.sub < b.sub; return a.order < b.order; });
  for (const Event& e : w.events) {
    switch (e.type) {
      case kEvMap: w.model.on_vm_event(true, e.mapping); break;
      case kEvUnmap: w.model.on_vm_event(false, e.mapping); break;
      case kEvAlloc: w.model.alloc_ok(e.requested, e.span, e.stamp); break;
      case kEvRelease: SIM_CHECK(w.model.live.count(e.rx), "c11:model", "release of a span the model does not know"); w.model.released(e.rx); break;
      case kEvShrink: w.model.shrunk(e.rx, e.new_size, e.reported); break;
      case kEvStats: { char when[64]; snprintf(when, sizeof when, "statistics() of thread %d at critical section %llu", e.tid, (unsigned long long)e.cs); w.model.check_statistics(e.stats, when); break; }
      default: break;
    }
  }
  sim::logf("threads=%d events=%zu locks=%llu lock_order=%016llx", n, w.events.size(), (unsigned long long)sim::sched::locks_observed(), (unsigned long long)sim::sched::lock_order_hash());
  if (sim::sched::locks_observed() > 0 && !getenv("SIM_C11_NO_H2")) {   // (the variable exists for sensitivity experiments on the other oracles)
    SIM_CHECK(w.unlocked_probes == 0, "c11:shared-state-accessed-without-lock", "%llu access(es) to the allocator's shared bookkeeping were made by a thread that holds no lock (first at '%s')", (unsigned long long)w.unlocked_probes, w.unlocked_site ? w.unlocked_site : "?");
    sim::count("c11.probe.lock_discipline_checked");
  }
  else sim::count("c11.probe.lock_discipline_oracle_off");
  // final single-threaded checks: every span still holds its owner's stamp, statistics and fill pattern are exact
  for (int t = 0; t < n; t++) for (auto& h : w.held[size_t(t)]) { const uint8_t* p = reinterpret_cast<const uint8_t*>(h.rx); for (size_t off = 0; off + 8 <= h.size; off += cfg.granularity) { uint64_t v; memcpy(&v, p + off, 8); SIM_CHECK(v == h.stamp + off, "c11:span-corrupted", "final check: span at %#zx of thread %d lost its contents", size_t(h.rx), t); } }
  JitAllocator::Statistics st; { sim::AsmjitScope s; st = w.alloc->statistics(); }
  w.model.check_statistics(st, "final statistics()");
  w.model.check_fill("final check");
  size_t live = 0; for (auto& v : w.held) live += v.size();
  SIM_CHECK(live == w.model.live.size(), "c11:model", "threads own %zu spans, the model %zu", live, w.model.live.size());
  if (!w.events.empty()) sim::mark_nontrivial();
  sim::count("c11.lock_orders", 1);
  // teardown
  for (int t = 0; t < n; t++) for (auto& h : w.held[size_t(t)]) { sim::AsmjitScope s; (void)w.alloc->release(h.span.rx()); }
  w.model.live.clear();
  { sim::AsmjitScope s; w.alloc.reset(); }
  sim::vm::set_observer(nullptr, nullptr);
  sim::vm::arm(false); sim::heap::arm(false);
  SIM_CHECK(sim::vm::live_mappings_this_run() == 0, "c11:leak-vm", "mappings left after destruction:%s", sim::vm::describe_leaks().c_str());
  SIM_CHECK(sim::heap::live_blocks_this_run() == 0, "c11:leak-heap", "%zu heap blocks left", sim::heap::live_blocks_this_run());
  sim::end_op();
}

Plan generate_a(uint64_t seed, bool thorough) {
  Plan p;
  Rng cfg = sim::stream(seed, "cfg");
  Rng r = sim::stream(seed, "plan");
  int n = int(2 + cfg.below(thorough ? 15 : 7));
  p.set("threads", n);
  uint32_t options = 0;
  static const uint32_t opt_bits[] = {0x1, 0x2, 0x4, 0x8, 0x10};
  for (uint32_t b : opt_bits) if (cfg.chance(1, 3)) options |= b;
  p.set("options", options);
  static const int64_t grans[] = {0, 64, 64, 128, 256};
  p.set("granularity", grans[cfg.below(5)]);
  p.set("block_size", cfg.chance(1, 3) ? 131072 : 0);
  p.set("window", int64_t(cfg.below(2)));
  p.set("policy", int64_t(cfg.below(sim::vm::kPolicyCount)));
  p.set("strategy", int64_t(cfg.below(2)));
  size_t per_thread = size_t(10 + r.below(thorough ? 51 : 31));
  int small_bias = int(r.below(3));
  for (int t = 0; t < n; t++) {
    for (size_t i = 0; i < per_thread; i++) {
      Op op; op.thread = uint16_t(t);
      static const uint16_t ks[] = {kAlloc, kAlloc, kAlloc, kRelease, kRelease, kShrink, kQuery, kQuery, kStats, kStats, kWriteFn};
      op.kind = r.pick(ks);
      // one-granule spans share bit-vector words: that is where a lost lock becomes a visible race
      op.a[0] = int64_t(op.kind == kAlloc ? (small_bias != 2 && r.chance(2, 3) ? 1 + r.below(64) : (r.chance(1, 10) ? 60000 + r.below(80000) : 1 + r.below(3000))) : r.below(100000));
      op.a[1] = int64_t(r.below(4));
      op.a[2] = int64_t(r.below(100000));
      p.ops.push_back(op);
    }
  }
  // interleave the per-thread operations in the plan so that dropping a chunk affects several threads
  Rng sh = sim::stream(seed, "shuffle");
  for (size_t i = p.ops.size(); i > 1; i--) std::swap(p.ops[i - 1], p.ops[sh.below(i)]);
  return p;
}

// ---------------------------------------------------------------------------------------------------------------
// Scenario B: one JitRuntime, N threads adding / executing / releasing code
// ---------------------------------------------------------------------------------------------------------------

struct Installed { uint32_t (*fn)(); uint32_t expect; std::vector<uint8_t> image; };

struct WorldB {
  const Plan& plan;
  std::unique_ptr<JitRuntime> rt;
  std::vector<std::vector<Installed>> owned;
  std::vector<std::vector<const Op*>> ops;
  void* stub = nullptr;
  const char* unlocked_site = nullptr;
  uint64_t unlocked_probes = 0;
  explicit WorldB(const Plan& p) : plan(p) {}
};

void h2_observer_b(void* ctx, const void*, const char* site, int held) { WorldB& w = *static_cast<WorldB*>(ctx); if (held == 0) { w.unlocked_probes++; if (!w.unlocked_site) w.unlocked_site = site; } }

void thread_body_b(int tid, void* arg) {
  WorldB& w = *static_cast<WorldB*>(arg);
  std::vector<Installed>& mine = w.owned[size_t(tid)];
  uint32_t iter = 0;
  for (const Op* opp : w.ops[size_t(tid)]) {
    const Op& op = *opp;
    sim::sched::yield();
    switch (op.kind) {
      case kAddCode: {
        uint32_t value = uint32_t(tid) << 20 | (++iter);
        Installed ins; ins.expect = value + ((op.a[0] & 1) && w.stub ? 1000u : 0u);
        Error err;
        {
          sim::AsmjitScope s;
          CodeHolder code;
          err = code.init(w.rt->environment(), w.rt->cpu_features());
          if (err == Error::kOk) {
            x86::Assembler as(&code);
            if ((op.a[0] & 1) && w.stub) {
              // call a stub placed by the simulator (far away: goes through the address table or rel32)
              as.sub(x86::rsp, 8);
              as.call(Imm(uint64_t(uintptr_t(w.stub))));
              as.add(x86::rsp, 8);
              as.add(x86::eax, Imm(value));
              as.ret();
            }
            else {
              for (int64_t k = 0; k < (op.a[1] % 40); k++) as.nop();
              as.mov(x86::eax, Imm(value));
              as.ret();
            }
            err = w.rt->add(&ins.fn, &code);
            if (err == Error::kOk) { size_t sz = code.code_size(); ins.image.resize(sz); (void)code.copy_flattened_data(ins.image.data(), sz, CopySectionFlags::kPadSectionBuffer); }
          }
        }
        sim::logf("t%d add_code value=%u -> err=%u at %#zx", tid, value, unsigned(err), size_t(uintptr_t(ins.fn)));
        SIM_CHECK(err == Error::kOk && ins.fn, "c11:add-failed", "JitRuntime::add failed with error %u in thread %d", unsigned(err), tid);
        SIM_CHECK(memcmp(reinterpret_cast<void*>(ins.fn), ins.image.data(), ins.image.size()) == 0, "c11:installed-image-differs", "bytes at the pointer returned by add() differ from the image this thread relocated");
        uint32_t got = ins.fn();
        SIM_CHECK(got == ins.expect, "c11:wrong-result", "function installed by thread %d returned %u, expected %u", tid, got, ins.expect);
        mine.push_back(ins);
        break;
      }
      case kCallCode: {
        if (mine.empty()) break;
        Installed& ins = mine[size_t(op.a[0]) % mine.size()];
        uint32_t got = ins.fn();
        SIM_CHECK(got == ins.expect, "c11:wrong-result", "function owned by thread %d now returns %u, expected %u (code was overwritten)", tid, got, ins.expect);
        SIM_CHECK(memcmp(reinterpret_cast<void*>(ins.fn), ins.image.data(), ins.image.size()) == 0, "c11:installed-image-differs", "installed code of thread %d changed", tid);
        break;
      }
      case kReleaseCode: {
        if (mine.empty()) break;
        size_t i = size_t(op.a[0]) % mine.size();
        Installed ins = mine[i];
        mine.erase(mine.begin() + long(i));
        Error err;
        { sim::AsmjitScope s; err = w.rt->release(ins.fn); }
        SIM_CHECK(err == Error::kOk, "c11:release-failed", "JitRuntime::release failed with error %u", unsigned(err));
        break;
      }
      default: break;
    }
    sim::add_steps(1);
  }
}

extern "C" uint32_t c11_stub_1000() { return 1000; }

void execute_b(const Plan& plan) {
  WorldB w(plan);
  sim::heap::configure(0, 0, 0, plan.seed);
  sim::vm::configure(int(plan.get("window", 0)), int(plan.get("policy", 0)), 0, plan.seed);
  sim::heap::arm(true); sim::vm::arm(true);
  int n = int(plan.get("threads", 2));
  { sim::AsmjitScope s; w.rt.reset(new JitRuntime()); }
  // stub in the other window: more than 2 GiB away from the code
  int stub_window = plan.get("window", 0) == 0 ? sim::vm::kWinHigh : sim::vm::kWinLow;
  void* stub_mem = sim::vm::harness_map(stub_window, 4096, 7);
  if (stub_mem) { static const uint8_t code[] = {0xB8, 0xE8, 0x03, 0x00, 0x00, 0xC3}; memcpy(stub_mem, code, sizeof code); w.stub = stub_mem; }   // mov eax, 1000; ret
  w.owned.resize(size_t(n)); w.ops.resize(size_t(n));
  for (auto& op : plan.ops) w.ops[size_t(op.thread) % size_t(n)].push_back(&op);
  sim::sched::set_h2_observer(h2_observer_b, &w);
  sim::sched::run(n, thread_body_b, &w, plan.seed, int(plan.get("strategy", 0)));

  sim::begin_op(Op(), plan.ops.size());
  if (sim::sched::locks_observed() > 0 && !getenv("SIM_C11_NO_H2")) SIM_CHECK(w.unlocked_probes == 0, "c11:shared-state-accessed-without-lock", "%llu access(es) to shared bookkeeping without a lock (first at '%s')", (unsigned long long)w.unlocked_probes, w.unlocked_site ? w.unlocked_site : "?");
  size_t live = 0;
  for (int t = 0; t < n; t++) for (auto& ins : w.owned[size_t(t)]) { live++; uint32_t got = ins.fn(); SIM_CHECK(got == ins.expect, "c11:wrong-result", "final check: function of thread %d returns %u, expected %u", t, got, ins.expect); }
  JitAllocator::Statistics st; { sim::AsmjitScope s; st = w.rt->allocator().statistics(); }
  SIM_CHECK(st.allocation_count() == live, "c11:stats-allocation-count", "allocation_count() is %zu, %zu functions are installed", st.allocation_count(), live);
  sim::logf("threads=%d live=%zu locks=%llu lock_order=%016llx", n, live, (unsigned long long)sim::sched::locks_observed(), (unsigned long long)sim::sched::lock_order_hash());
  sim::mark_nontrivial();
  for (int t = 0; t < n; t++) for (auto& ins : w.owned[size_t(t)]) { sim::AsmjitScope s; (void)w.rt->release(ins.fn); }
  { sim::AsmjitScope s; w.rt.reset(); }
  if (stub_mem) sim::vm::harness_unmap(stub_mem, 4096);
  sim::vm::arm(false); sim::heap::arm(false);
  SIM_CHECK(sim::vm::live_mappings_this_run() == 0, "c11:leak-vm", "mappings left after destruction:%s", sim::vm::describe_leaks().c_str());
  sim::end_op();
}

Plan generate_b(uint64_t seed, bool thorough) {
  Plan p;
  Rng cfg = sim::stream(seed, "cfg");
  Rng r = sim::stream(seed, "plan");
  int n = int(2 + cfg.below(thorough ? 11 : 5));
  p.set("threads", n);
  p.set("window", int64_t(cfg.below(2)));
  p.set("policy", int64_t(cfg.below(sim::vm::kPolicyCount)));
  p.set("strategy", int64_t(cfg.below(2)));
  size_t per_thread = size_t(6 + r.below(thorough ? 25 : 13));
  for (int t = 0; t < n; t++) for (size_t i = 0; i < per_thread; i++) {
    Op op; op.thread = uint16_t(t);
    static const uint16_t ks[] = {kAddCode, kAddCode, kAddCode, kCallCode, kReleaseCode, kReleaseCode};
    op.kind = r.pick(ks); op.a[0] = int64_t(r.below(1000)); op.a[1] = int64_t(r.below(1000));
    p.ops.push_back(op);
  }
  return p;
}

// ---------------------------------------------------------------------------------------------------------------
// Scenario C: independent code generation - every thread obtains the code it would obtain alone
// ---------------------------------------------------------------------------------------------------------------

std::string generate_alone(const Op& op) {
  gen::Target t = gen::Target(op.a[0] % 3);
  int kind = int((op.a[0] / 3) % 3);   // 0 assembler, 1 builder, 2 compiler with virtual registers
  CodeHolder code;
  StringLogger logger;
  gen::RecordingHandler eh;
  Environment env(gen::arch_of(t));
  if (op.a[3] & 4) env.set_platform(Platform::kWindows);   // same arch and calling-convention ids, another ABI behind them
  if (code.init(env) != Error::kOk) return "init failed";
  code.set_error_handler(&eh);
  if (op.a[3] & 1) code.set_logger(&logger);
  std::string out;
  if (kind == 2) {
    gen::FuncParams fp; fp.seed = uint64_t(op.a[1]); fp.live_values = uint32_t(2 + op.a[2] % 24); fp.blocks = uint32_t(op.a[2] % 4);
    if (t == gen::Target::kA64) { a64::Compiler cc(&code); bool ok = gen::build_a64_function(cc, fp, eh); out += ok ? "built " : "failed "; out += std::to_string(unsigned(cc.finalize())); }
    else { x86::Compiler cc(&code); bool ok = gen::build_x86_function(cc, fp, eh); out += ok ? "built " : "failed "; out += std::to_string(unsigned(cc.finalize())); }
  }
  else {
    Rng r(sim::mix64(uint64_t(op.a[1])));
    gen::GenOptions o; o.steps = size_t(5 + op.a[2] % 60);
    if ((op.a[3] & 2) && op.a[2] % 3 == 0) { o.steps += 250; o.extra_labels = uint32_t(140 + op.a[2] % 200); }   // label / fixup tables beyond 2 KiB: dynamic arena blocks
    gen::Program p = gen::generate_program(r, t, o);
    gen::ApplyCtx ctx;
    if (t == gen::Target::kA64) {
      if (kind == 0) { a64::Assembler a(&code); gen::apply_range(a, code, p, 0, p.steps.size(), ctx, false); }
      else { a64::Builder b(&code); gen::apply_range(b, code, p, 0, p.steps.size(), ctx, false); out += std::to_string(unsigned(b.finalize())); }
    }
    else {
      if (kind == 0) { x86::Assembler a(&code); gen::apply_range(a, code, p, 0, p.steps.size(), ctx, false); }
      else { x86::Builder b(&code); gen::apply_range(b, code, p, 0, p.steps.size(), ctx, false); out += std::to_string(unsigned(b.finalize())); }
    }
    for (Error e : ctx.results) { out += char('a' + (uint32_t(e) % 26)); }
  }
  out += "\n" + gen::snapshot(code);
  if (op.a[3] & 1) { out += "log:"; out.append(logger.data(), logger.data_size()); }
  {
    // text formatting into plain Strings (little room left in the destination: the formatter goes through its fallback
    // buffer) and of instructions through the Formatter - each thread obtains the text it obtains alone
    String text;
    for (uint32_t k = 0; k < 6; k++) (void)text.append_format("%s:%u:%llx|", k & 1 ? "odd" : "even", k, (unsigned long long)(uint64_t(op.a[1]) * (k + 1)));
    Operand_ fops[3] = { x86::Gp(x86::r9d), x86::Gp(x86::eax), Imm(int64_t(op.a[2])) };
    if (t != gen::Target::kA64) (void)Formatter::format_instruction(text, FormatFlags::kNone, nullptr, gen::arch_of(t), BaseInst(x86::Inst::kIdImul), Span<const Operand_>(fops, 3));
    out += "text:"; out.append(text.data(), text.size());
  }
  return out;
}

struct WorldC { const Plan& plan; std::vector<std::vector<const Op*>> ops; std::vector<std::string> reference; explicit WorldC(const Plan& p) : plan(p) {} };

void thread_body_c(int tid, void* arg) {
  WorldC& w = *static_cast<WorldC*>(arg);
  for (const Op* opp : w.ops[size_t(tid)]) {
    sim::sched::yield();
    std::string got;
    { sim::AsmjitScope s; got = generate_alone(*opp); }
    size_t idx = size_t(opp - &w.plan.ops[0]);
    if (got != w.reference[idx]) {
      size_t pos = 0; while (pos < got.size() && pos < w.reference[idx].size() && got[pos] == w.reference[idx][pos]) pos++;
      sim::fail("c11:parallel-differs-from-alone", "thread %d generated different code than the same program generated alone (first difference at byte %zu of the snapshot)", tid, pos);
    }
    sim::logf("t%d generated program %zu: %zu bytes of snapshot equal", tid, idx, got.size());
    sim::add_steps(1);
  }
}

void execute_c(const Plan& plan) {
  WorldC w(plan);
  sim::heap::configure(int(plan.get("junk", 0)), 0, 0, plan.seed);
  sim::heap::arm(true);
  int n = int(plan.get("threads", 2));
  // reference: each program generated alone, before any thread exists
  // (in REVERSE plan order: whatever a call leaves behind outside of its own objects - a process-wide or per-thread cache
  // keyed by less than the whole input - then has another predecessor here than in the thread that repeats the program)
  w.reference.resize(plan.ops.size());
  for (size_t i = plan.ops.size(); i-- > 0;) { sim::AsmjitScope s; w.reference[i] = generate_alone(plan.ops[i]); }
  w.ops.resize(size_t(n));
  for (auto& op : plan.ops) w.ops[size_t(op.thread) % size_t(n)].push_back(&op);
  sim::sched::run(n, thread_body_c, &w, plan.seed, int(plan.get("strategy", 0)));
  sim::begin_op(Op(), plan.ops.size());
  sim::mark_nontrivial();
  sim::heap::arm(false);
  SIM_CHECK(sim::heap::live_blocks_this_run() == 0, "c11:leak-heap", "%zu heap blocks left", sim::heap::live_blocks_this_run());
  sim::end_op();
}

Plan generate_c(uint64_t seed, bool thorough) {
  Plan p;
  Rng cfg = sim::stream(seed, "cfg");
  Rng r = sim::stream(seed, "plan");
  int n = int(2 + cfg.below(thorough ? 7 : 3));
  p.set("threads", n);
  p.set("junk", int64_t(cfg.below(4)));
  p.set("strategy", int64_t(cfg.below(2)));
  size_t per_thread = size_t(1 + r.below(thorough ? 4 : 2));
  for (int t = 0; t < n; t++) for (size_t i = 0; i < per_thread; i++) {
    Op op; op.thread = uint16_t(t); op.kind = kGenerate;
    op.a[0] = int64_t(r.below(9)); op.a[1] = int64_t(r.next() & 0x7fffffffffffll); op.a[2] = int64_t(r.below(1000)); op.a[3] = int64_t(r.below(8));
    p.ops.push_back(op);
  }
  return p;
}

void shrink(const Plan& p, std::vector<Plan>& out) {
  static const char* const zero_keys[] = {"options", "granularity", "block_size", "policy", "window", "strategy", "junk"};
  for (const char* k : zero_keys) if (p.get(k)) { Plan q = p; q.set(k, 0); out.push_back(q); }
  if (p.get("threads") > 2) { Plan q = p; q.set("threads", p.get("threads") - 1); out.push_back(q); }
}

const sim::Scenario kA = {"C11", "allocator", "asan", 40000, 800000, generate_a, execute_a, op_name, shrink, nullptr};
const sim::Scenario kB = {"C11", "runtime", "asan", 16000, 300000, generate_b, execute_b, op_name, shrink, nullptr};
const sim::Scenario kC = {"C11", "codegen", "asan", 6000, 100000, generate_c, execute_c, op_name, shrink, nullptr};
const sim::Scenario kAT = {"C11", "allocator-tsan", "tsan", 16000, 300000, generate_a, execute_a, op_name, shrink, nullptr};
const sim::Scenario kBT = {"C11", "runtime-tsan", "tsan", 6000, 100000, generate_b, execute_b, op_name, shrink, nullptr};
const sim::Scenario kCT = {"C11", "codegen-tsan", "tsan", 2000, 30000, generate_c, execute_c, op_name, shrink, nullptr};
sim::Registrar r1(kA), r2(kB), r3(kC), r4(kAT), r5(kBT), r6(kCT);

const char* const kAssumptions[] = {
  "The host information and every process-wide cache are initialised before the first simulated thread starts (the statement's precondition); racing first use is outside the guarantee.",
  "reset() and destruction are documented as not thread-safe and only run in single-threaded phases.",
  "The lock-discipline oracle (H2 probes) presumes asmjit synchronises with asmjit::Lock (a pthread mutex); it switches itself off for a run in which no wrapped pthread_mutex_lock is observed, leaving the model and ThreadSanitizer to decide.",
  "ThreadSanitizer only reports a lost lock when the unlocked access touches a word another thread wrote without intervening synchronisation; plans favour one-granule spans and operations on the most recently allocated spans for that reason.",
  nullptr};
const char* const kReal[] = {"asmjit JitAllocator, JitRuntime, VirtMem, CodeHolder, Assembler/Builder/Compiler (built from /repo, instrumented by ThreadSanitizer in the tsan flavour)", "real pthreads, real pthread mutexes (locked only when free), generated x86-64 code executed on the host", nullptr};
const char* const kStub[] = {"the choice of which thread runs next (seeded scheduler; threads parked on futex words that ThreadSanitizer cannot see)", "SimVM placement, SimHeap", nullptr};
const sim::PropInfo kInfo = {"C11", "exploration",
  "Each run is one seed: thread count (2..8 quick, 2..16 thorough), scheduling strategy (random walk with a drawn switch probability, or PCT-style priorities with 1..4 change points), allocator configuration, VM placement and a per-thread plan of 10..60 operations. Scenario 'allocator': alloc/release/shrink/query/statistics/write(fn)+truncate on one JitAllocator; the history is replayed on the C09 interval model in the order in which critical sections were entered and every result - including every number statistics() returned - must match; each thread's stamps must survive; H2 probes must find the lock held. "
  "Scenario 'runtime': threads assemble, add, execute and release functions through one JitRuntime (some calling a stub more than 2 GiB away). Scenario 'codegen': threads generate programs with their own holder/emitters/logger and must obtain exactly what the same program yields alone. The *-tsan scenarios run the same plans under ThreadSanitizer with the same scheduler. Scheduling points: wrapped mutex lock/unlock, H1/H2 hooks, every heap and VM call, operation boundaries. Non-trivial = at least one operation ran; distinct = distinct event-log hashes (which include the lock-acquisition order).",
  kAssumptions, kReal, kStub};
sim::PropInfoRegistrar reginfo(kInfo);

} // namespace
