// C19 - Constant pool returns aligned, stable, deduplicated offsets with exact contents.
#include "sim/sim.h"

#include <asmjit/core.h>
#include <asmjit/x86.h>
#include <asmjit/a64.h>
#include <asmjit/core/constpool.h>

#include <string.h>
#include <map>
#include <string>
#include <vector>
#include <memory>

using namespace asmjit;
using sim::Op;
using sim::Plan;
using sim::Rng;

namespace {

enum OpKind : uint16_t { kAdd, kAddRepeat, kAddPart, kAddWider, kAddInvalid, kFill, kReset, kOpCount };
const char* const kOpNames[kOpCount] = {"add", "add_repeat", "add_part", "add_wider", "add_invalid", "fill", "reset"};
const char* op_name(uint16_t k) { return k < kOpCount ? kOpNames[k] : "?"; }

struct Entry { size_t offset; std::string bytes; };

struct Model {
  std::vector<Entry> entries;                                   // every successful add
  std::map<std::pair<size_t, std::string>, size_t> by_value;     // (size, bytes) -> offset
  size_t max_len = 0;
};

std::string gen_bytes(uint64_t seed, size_t n, int flavour) {
  std::string s(n, '\0');
  Rng r(seed);
  switch (flavour) {
    case 0: for (auto& c : s) c = char(r.next()); break;                    // random
    case 1: for (auto& c : s) c = char(r.below(2)); break;                  // low entropy (many equal halves)
    case 2: { char c0 = char(r.next()); for (auto& c : s) c = c0; break; }  // all bytes equal
    default: for (size_t i = 0; i < n; i++) s[i] = char((seed >> ((i & 7) * 8)) & 0xff); break;
  }
  return s;
}

void record_add(Model& m, const std::string& data, size_t offset, size_t pool_size, size_t pool_alignment) {
  size_t size = data.size();
  SIM_CHECK(offset % size == 0, "c19:alignment", "add(size=%zu) returned offset %zu which is not aligned to the size", size, offset);
  SIM_CHECK(offset + size <= pool_size, "c19:size", "add(size=%zu) returned offset %zu but size() is only %zu", size, offset, pool_size);
  SIM_CHECK(pool_alignment >= size, "c19:pool-alignment", "alignment() is %zu after adding a %zu-byte constant", pool_alignment, size);
  auto key = std::make_pair(size, data);
  auto it = m.by_value.find(key);
  if (it != m.by_value.end())
    SIM_CHECK(it->second == offset, "c19:dedup", "the same %zu-byte constant was given offset %zu first and %zu now", size, it->second, offset);
  else
    m.by_value[key] = offset;
  // Distinct storage must not overlap: any overlap with an earlier constant is legal only where the bytes agree.
  for (auto& e : m.entries) {
    size_t lo = std::max(e.offset, offset), hi = std::min(e.offset + e.bytes.size(), offset + size);
    for (size_t p = lo; p < hi; p++)
      SIM_CHECK(e.bytes[p - e.offset] == data[p - offset], "c19:overlap", "constant of %zu bytes at offset %zu overlaps an earlier constant at %zu with different contents", size, offset, e.offset);
  }
  m.entries.push_back(Entry{offset, data});
  m.max_len = std::max(m.max_len, size);
}

void check_image(const Model& m, const uint8_t* img, size_t size, const char* what) {
  std::vector<uint8_t> covered(size, 0);
  for (auto& e : m.entries) {
    SIM_CHECK(e.offset + e.bytes.size() <= size, "c19:size", "%s: constant at %zu (+%zu) lies outside the pool of %zu bytes", what, e.offset, e.bytes.size(), size);
    SIM_CHECK(memcmp(img + e.offset, e.bytes.data(), e.bytes.size()) == 0, "c19:content", "%s: bytes at offset %zu differ from the %zu-byte constant that was added there", what, e.offset, e.bytes.size());
    for (size_t i = 0; i < e.bytes.size(); i++) covered[e.offset + i] = 1;
  }
  for (size_t i = 0; i < size; i++) if (!covered[i]) SIM_CHECK(img[i] == 0, "c19:gap-not-zero", "%s: byte %zu is not covered by any constant but holds %#x", what, i, unsigned(img[i]));
}

void check_fill(ConstPool& pool, const Model& m) {
  size_t size = pool.size();
  constexpr size_t kGuard = 64;
  std::vector<uint8_t> buf(size + 2 * kGuard, 0xA5);
  pool.fill(buf.data() + kGuard);
  for (size_t i = 0; i < kGuard; i++) SIM_CHECK(buf[i] == 0xA5 && buf[kGuard + size + i] == 0xA5, "c19:fill-out-of-bounds", "fill() wrote outside [0, size()) (guard byte %zu)", i);
  check_image(m, buf.data() + kGuard, size, "fill()");
  SIM_CHECK(pool.alignment() >= m.max_len, "c19:pool-alignment", "alignment() %zu < largest constant %zu", pool.alignment(), m.max_len);
  SIM_CHECK(pool.is_empty() == (size == 0), "c19:size", "is_empty() disagrees with size()");
}

// Executes add-type operations against `add_fn`, which returns (Error, offset).
template<typename AddFn>
void run_ops(const Plan& plan, Model& m, std::vector<std::string>& history, AddFn&& add_fn, ConstPool* direct_pool, Arena* direct_arena = nullptr) {
  for (size_t i = 0; i < plan.ops.size(); i++) {
    const Op& op = plan.ops[i];
    sim::begin_op(op, i);
    sim::add_steps(1);
    std::string data;
    bool expect_invalid = false;
    switch (op.kind) {
      case kAdd: data = gen_bytes(uint64_t(op.a[1]), size_t(1) << (op.a[0] % 7), int(op.a[2] & 3)); break;
      case kAddRepeat: if (history.empty()) { sim::end_op(); continue; } data = history[size_t(op.a[0]) % history.size()]; break;
      case kAddPart: {   // half / quarter / eighth of an earlier wider constant
        if (history.empty()) { sim::end_op(); continue; }
        const std::string& h = history[size_t(op.a[0]) % history.size()];
        size_t part = h.size() >> (1 + op.a[1] % 3);
        if (part == 0) { sim::end_op(); continue; }
        size_t idx = size_t(op.a[2]) % (h.size() / part);
        data = h.substr(idx * part, part);
        break;
      }
      case kAddWider: {   // wider constant whose parts were added before
        if (history.empty()) { sim::end_op(); continue; }
        const std::string& a = history[size_t(op.a[0]) % history.size()];
        if (a.size() > 32) { sim::end_op(); continue; }
        std::string b = (op.a[1] & 1) ? a : gen_bytes(uint64_t(op.a[2]), a.size(), 0);
        data = (op.a[1] & 2) ? b + a : a + b;
        break;
      }
      case kAddInvalid: {
        static const size_t bad[] = {0, 3, 5, 6, 7, 9, 12, 24, 48, 65, 96, 128, 1000};
        data = gen_bytes(uint64_t(op.a[1]), bad[size_t(op.a[0]) % 13], 0);
        expect_invalid = true;
        break;
      }
      case kFill: if (direct_pool) check_fill(*direct_pool, m); sim::end_op(); continue;
      case kReset:
        if (direct_pool) {
          direct_pool->reset(); m = Model();
          SIM_CHECK(direct_pool->size() == 0 && direct_pool->alignment() == 0 && direct_pool->is_empty(), "c19:reset", "reset() left size/alignment behind");
          // the usual way a pool is recycled: its arena is reset as well, so the memory of the old nodes and gap records is
          // handed out again
          int how = int(op.a[0] % 3);
          if (direct_arena && how) { direct_arena->reset(how == 1 ? ResetPolicy::kSoft : ResetPolicy::kHard); sim::count("c19.probe.pool_and_arena_reset"); }
          sim::logf("reset arena=%d", how);
        }
        sim::end_op();
        continue;
      default: sim::end_op(); continue;
    }
    size_t offset = ~size_t(0);
    size_t pool_size = 0, pool_align = 0;
    size_t size_before = direct_pool ? direct_pool->size() : 0, align_before = direct_pool ? direct_pool->alignment() : 0;
    Error err = add_fn(data, offset, pool_size, pool_align);
    // an add() that reports a failure leaves the pool as it was: repeating it must not land somewhere else than it would have
    if (direct_pool && err != Error::kOk) SIM_CHECK(direct_pool->size() == size_before && direct_pool->alignment() == align_before, "c19:failed-add-changed-pool", "add(%zu bytes) failed with error %u but the pool grew from %zu to %zu bytes (alignment %zu -> %zu)", data.size(), unsigned(err), size_before, direct_pool->size(), align_before, direct_pool->alignment());
    sim::logf("%s size=%zu err=%u off=%zu", op_name(op.kind), data.size(), unsigned(err), err == Error::kOk ? offset : size_t(0));
    if (expect_invalid) {
      SIM_CHECK(err != Error::kOk, "c19:invalid-size-accepted", "add() accepted a constant of %zu bytes", data.size());
    }
    else if (err == Error::kOk) {
      record_add(m, data, offset, pool_size, pool_align);
      history.push_back(data);
    }
    else {
      SIM_CHECK(sim::run_faults_fired_total() > 0, "c19:add-failed", "add(size=%zu) failed with error %u without an injected fault", data.size(), unsigned(err));
      sim::count("c19.probe.add_failed_under_fault");
    }
    // Every offset handed out earlier stays valid - verified through fill() every few operations.
    if (direct_pool && (i % 8) == 7) check_fill(*direct_pool, m);
    sim::end_op();
  }
}

void execute_direct(const Plan& plan) {
  sim::set_knob_arena_block(size_t(plan.get("arena_block", 0)));
  sim::heap::configure(int(plan.get("junk", 0)), 0, int(plan.get("shift", 0)), plan.seed);
  sim::heap::arm(true);
  {
    Arena arena(size_t(plan.get("min_block", 4096)));
    ConstPool pool(arena);
    Model m;
    std::vector<std::string> history;
    run_ops(plan, m, history, [&](const std::string& d, size_t& off, size_t& psize, size_t& palign) {
      Error e = pool.add(d.data(), d.size(), Out(off));
      psize = pool.size(); palign = pool.alignment();
      return e;
    }, &pool, &arena);
    sim::begin_op(Op(), plan.ops.size());
    check_fill(pool, m);
    if (!m.entries.empty()) sim::mark_nontrivial();
    sim::end_op();
  }
  sim::heap::arm(false);
  SIM_CHECK(sim::heap::live_blocks_this_run() == 0, "c19:leak", "%zu heap block(s) leaked:%s", sim::heap::live_blocks_this_run(), sim::heap::describe_live_blocks_this_run().c_str());
}

// Constants embedded through an Assembler or a Builder (x86-32, x86-64, AArch64): the section bytes after the (aligned)
// label equal the model image.
void execute_embed(const Plan& plan) {
  sim::set_knob_arena_block(size_t(plan.get("arena_block", 0)));
  sim::set_knob_code_buffer(size_t(plan.get("code_buffer", 0)));
  sim::heap::configure(int(plan.get("junk", 0)), int(plan.get("realloc_move", 0)), int(plan.get("shift", 0)), plan.seed);
  sim::heap::arm(true);
  {
    int arch = int(plan.get("arch", 1));            // 0 x86-32, 1 x86-64, 2 AArch64
    bool via_builder = plan.get("builder", 0) != 0;
    Environment env(arch == 0 ? Arch::kX86 : arch == 1 ? Arch::kX64 : Arch::kAArch64);
    CodeHolder code;
    SIM_CHECK(code.init(env) == Error::kOk, "c19:setup", "CodeHolder::init failed");
    std::unique_ptr<BaseEmitter> emitter;
    if (arch == 2) emitter.reset(via_builder ? static_cast<BaseEmitter*>(new a64::Builder()) : static_cast<BaseEmitter*>(new a64::Assembler()));
    else emitter.reset(via_builder ? static_cast<BaseEmitter*>(new x86::Builder()) : static_cast<BaseEmitter*>(new x86::Assembler()));
    BaseEmitter& a = *emitter;
    bool usable = code.attach(&a) == Error::kOk;
    SIM_CHECK(usable || sim::run_faults_fired_total() > 0, "c19:setup", "attach failed");
    Arena arena(size_t(plan.get("min_block", 4096)));
    ConstPool pool(arena);
    Model m;
    std::vector<std::string> history;
    // some bytes before the pool so that alignment padding is needed (any count: data may end anywhere)
    size_t prefix = size_t(plan.get("prefix_nops", 0));
    uint8_t filler[80]; memset(filler, 0x90, sizeof filler);
    if (usable && prefix) usable = a.embed(filler, prefix) == Error::kOk;
    run_ops(plan, m, history, [&](const std::string& d, size_t& off, size_t& psize, size_t& palign) {
      Error e = pool.add(d.data(), d.size(), Out(off));
      psize = pool.size(); palign = pool.alignment();
      return e;
    }, &pool);
    sim::begin_op(Op(), plan.ops.size());
    Label l = a.new_label();
    size_t before = prefix;
    // optionally the user has aligned the position already - weaker or stronger than the pool needs; the pool's own alignment
    // must not rely on it
    size_t user_align = size_t(plan.get("user_align", 0));
    if (usable && user_align) { usable = a.align(AlignMode::kData, uint32_t(user_align)) == Error::kOk; before = (prefix + user_align - 1) & ~(user_align - 1); sim::count("c19.probe.embed_after_user_alignment"); }
    Error e = usable ? a.embed_const_pool(l, pool) : Error::kOutOfMemory;
    if (e == Error::kOk && via_builder) e = a.finalize();
    if (e != Error::kOk) {
      SIM_CHECK(sim::run_faults_fired_total() > 0, "c19:embed-failed", "embed_const_pool%s failed with %u without a fault", via_builder ? " + finalize" : "", unsigned(e));
    }
    else {
      SIM_CHECK(code.is_label_bound(l), "c19:embed-label", "embed_const_pool did not bind the label");
      size_t lo = size_t(code.label_offset(l));
      size_t align = pool.alignment() ? pool.alignment() : 1;
      SIM_CHECK(lo % align == 0, "c19:embed-alignment", "pool label at offset %zu is not aligned to %zu (arch %d, %s, %zu bytes in front)", lo, align, arch, via_builder ? "builder" : "assembler", prefix);
      SIM_CHECK(lo >= before && lo - before < align, "c19:embed-alignment", "alignment padding of %zu bytes for alignment %zu", lo - before, align);
      Section* text = code.text_section();
      SIM_CHECK(text->buffer_size() == lo + pool.size(), "c19:embed-size", "section size %zu after embedding, expected %zu", text->buffer_size(), lo + pool.size());
      check_image(m, text->data() + lo, pool.size(), "embed_const_pool()");
      if (!m.entries.empty()) sim::mark_nontrivial();
      sim::logf("embedded at %zu size %zu arch=%d builder=%d", lo, pool.size(), arch, int(via_builder));
    }
    sim::end_op();
  }
  sim::heap::arm(false);
  SIM_CHECK(sim::heap::live_blocks_this_run() == 0, "c19:leak", "%zu heap block(s) leaked:%s", sim::heap::live_blocks_this_run(), sim::heap::describe_live_blocks_this_run().c_str());
}

// Constants created through the Compiler (local and global scope): after finalize() the bytes at label+offset equal
// the constant for every memory operand that was handed out.
void execute_compiler(const Plan& plan) {
  sim::set_knob_arena_block(size_t(plan.get("arena_block", 0)));
  sim::heap::configure(int(plan.get("junk", 0)), int(plan.get("realloc_move", 0)), int(plan.get("shift", 0)), plan.seed);
  sim::heap::arm(true);
  {
    int arch = int(plan.get("arch", 1));   // 2: AArch64, otherwise x86-64
    Environment env(arch == 2 ? Arch::kAArch64 : Arch::kX64);
    CodeHolder code;
    SIM_CHECK(code.init(env) == Error::kOk, "c19:setup", "CodeHolder::init failed");
    x86::Compiler xcc; a64::Compiler acc;
    BaseCompiler& cc = arch == 2 ? static_cast<BaseCompiler&>(acc) : static_cast<BaseCompiler&>(xcc);
    bool attached = code.attach(&cc) == Error::kOk;
    SIM_CHECK(attached || sim::run_faults_fired_total() > 0, "c19:setup", "attach failed");
    // Optionally the Compiler has a past: a function that created local and global constants was abandoned before
    // finalize() and the objects were recycled (reinit, or reset + init + attach).
    int abandoned = int(plan.get("abandoned", 0));
    if (attached && abandoned) {
      if (cc.add_func(FuncSignature::build<void>())) {
        for (size_t i = 0; i < plan.ops.size() && i < 4; i++) {
          std::string d = gen_bytes(uint64_t(plan.ops[i].a[1]) ^ 0xABCD, size_t(1) << (plan.ops[i].a[0] % 7), 0);
          BaseMem mem; (void)cc._new_const(Out<BaseMem>(mem), ConstPoolScope(i & 1), d.data(), d.size());
        }
      }
      if (abandoned == 1) attached = code.reinit() == Error::kOk;
      else { code.reset(ResetPolicy::kSoft); attached = code.init(env) == Error::kOk && code.attach(&cc) == Error::kOk; }
      SIM_CHECK(attached, "c19:setup", "recycling the compiler failed");
      sim::count("c19.probe.compiler_recycled_after_abandoned_function");
    }
    FuncNode* fn = attached ? cc.add_func(FuncSignature::build<void>()) : nullptr;
    // a varying number of labels, so that the pool's own label lands on different capacities of the label arrays
    for (int64_t i = 0, n = plan.get("extra_labels", 0); fn && i < n; i++) (void)cc.new_label();
    struct Handed { uint32_t label_id; size_t offset; std::string bytes; };
    std::vector<Handed> handed;
    Model scopes[2];
    std::vector<std::string> history;
    bool failed = fn == nullptr;
    int functions = 1;
    for (size_t i = 0; i < plan.ops.size() && !failed; i++) {
      const Op& op = plan.ops[i];
      sim::begin_op(op, i);
      sim::add_steps(1);
      std::string data;
      if (op.kind == kAdd) data = gen_bytes(uint64_t(op.a[1]), size_t(1) << (op.a[0] % 7), int(op.a[2] & 3));
      else if ((op.kind == kAddRepeat || op.kind == kAddPart) && !history.empty()) {
        data = history[size_t(op.a[0]) % history.size()];
        if (op.kind == kAddPart && data.size() >= 2) data = data.substr(0, data.size() / 2);
      }
      if (data.empty()) { sim::end_op(); continue; }
      int scope = int(op.a[3] & 1);
      // Some constants are requested while no function is open (between end_func() and the next add_func()): they go out with
      // the next function's pool (local scope) or with the global pool.
      bool between_functions = (op.a[3] & 6) == 6 && functions < 3 && plan.get("multi_func", 0) != 0;
      if (between_functions) { if (arch == 2) acc.ret(); else xcc.ret(); if (cc.end_func() != Error::kOk) { failed = true; sim::end_op(); continue; } functions++; sim::count("c19.probe.constant_requested_between_functions"); }
      BaseMem mem;
      (void)cc._new_const(Out<BaseMem>(mem), ConstPoolScope(scope), data.data(), data.size());
      if ((mem.is_none() || !mem.has_base_label()) && sim::run_faults_fired_total() > 0) {
        // the call reported the failure; repeating it once memory is available must give a usable constant
        sim::count("c19.probe.new_const_repeated_after_failure");
        (void)cc._new_const(Out<BaseMem>(mem), ConstPoolScope(scope), data.data(), data.size());
        if (!mem.is_none() && mem.has_base_label()) SIM_CHECK(code.is_label_valid(mem.base_id()) && !code.is_label_bound(mem.base_id()), "c19:new-const-after-failure", "new_const() repeated after a reported failure returned an operand based on label %u, which is %s", mem.base_id(), code.is_label_valid(mem.base_id()) ? "already bound" : "not a label of this holder");
      }
      if (mem.is_none() || !mem.has_base_label()) {
        SIM_CHECK(sim::run_faults_fired_total() > 0, "c19:new-const-failed", "new_const(%zu bytes) failed without a fault", data.size());
        failed = true;
      }
      else {
        handed.push_back(Handed{mem.base_id(), size_t(mem.offset()), data});
        history.push_back(data);
        if (between_functions && !cc.add_func(FuncSignature::build<void>())) { failed = true; sim::end_op(); continue; }
        // keep the constant referenced by an instruction so that the pool is serialised
        if (arch == 2) { a64::Gp r = acc.new_gp64(); acc.adr(r, Label(mem.base_id())); }
        else { x86::Gp r = xcc.new_gp64(); xcc.lea(r, mem.as<x86::Mem>()); }
        sim::logf("new_const scope=%d size=%zu off=%zu", scope, data.size(), size_t(mem.offset()));
      }
      sim::end_op();
    }
    sim::begin_op(Op(), plan.ops.size());
    if (!failed) {
      if (arch == 2) acc.ret(); else xcc.ret();
      cc.end_func();
      // constants requested after the last function has ended (no instruction can reference them any more, but the operands
      // that were handed out must still designate their bytes after finalize())
      for (int64_t k = 0, n = plan.get("trailing_consts", 0); k < n; k++) {
        std::string d = gen_bytes(uint64_t(plan.seed) + 977 * uint64_t(k), size_t(1) << ((plan.seed >> (3 * k)) % 6), 0);
        BaseMem mem; (void)cc._new_const(Out<BaseMem>(mem), ConstPoolScope(k & 1), d.data(), d.size());
        if (!mem.is_none() && mem.has_base_label()) { handed.push_back(Handed{mem.base_id(), size_t(mem.offset()), d}); sim::count("c19.probe.constant_requested_after_last_function"); }
      }
      Error e = cc.finalize();
      if (e != Error::kOk) SIM_CHECK(sim::run_faults_fired_total() > 0, "c19:finalize-failed", "finalize failed with %u without a fault", unsigned(e));
      else {
        Section* text = code.text_section();
        for (auto& h : handed) {
          Label l(h.label_id);
          SIM_CHECK(code.is_label_bound(l), "c19:compiler-pool-unbound", "constant pool label %u is not bound after finalize()", h.label_id);
          size_t at = size_t(code.label_offset(l)) + h.offset;
          SIM_CHECK(at % h.bytes.size() == 0, "c19:compiler-alignment", "%zu-byte constant ends up at section offset %zu", h.bytes.size(), at);
          SIM_CHECK(at + h.bytes.size() <= text->buffer_size(), "c19:compiler-size", "constant at %zu (+%zu) lies outside the section (%zu)", at, h.bytes.size(), text->buffer_size());
          SIM_CHECK(memcmp(text->data() + at, h.bytes.data(), h.bytes.size()) == 0, "c19:compiler-content", "bytes at label+%zu differ from the %zu-byte constant", h.offset, h.bytes.size());
        }
        if (!handed.empty()) sim::mark_nontrivial();
      }
    }
    sim::end_op();
  }
  sim::heap::arm(false);
  SIM_CHECK(sim::heap::live_blocks_this_run() == 0, "c19:leak", "%zu heap block(s) leaked:%s", sim::heap::live_blocks_this_run(), sim::heap::describe_live_blocks_this_run().c_str());
}

Plan generate_common(uint64_t seed, bool thorough, bool allow_reset) {
  Plan p;
  Rng cfg = sim::stream(seed, "cfg");
  Rng r = sim::stream(seed, "plan");
  static const int64_t blocks[] = {0, 1024, 1024, 2048, 4096};
  p.set("arena_block", blocks[cfg.below(5)]);
  p.set("min_block", 1024 << cfg.below(4));
  p.set("junk", int64_t(cfg.below(4)));
  p.set("shift", int64_t(cfg.below(4)));
  p.set("realloc_move", int64_t(cfg.below(2)));
  p.set("code_buffer", cfg.chance(1, 2) ? int64_t(32 << cfg.below(4)) : 0);
  p.set("arch", int64_t(cfg.below(3)));
  p.set("builder", int64_t(cfg.chance(1, 3)));
  p.set("abandoned", cfg.chance(1, 2) ? 0 : int64_t(1 + cfg.below(2)));
  p.set("extra_labels", int64_t(cfg.below(14)));
  p.set("multi_func", int64_t(cfg.below(2)));
  p.set("trailing_consts", cfg.chance(1, 3) ? int64_t(1 + cfg.below(3)) : 0);
  p.set("prefix_nops", int64_t(cfg.below(70)));
  p.set("user_align", int64_t(cfg.chance(1, 2) ? 0 : (1 << (1 + cfg.below(6)))));
  int fault_class = int(cfg.below(3));
  p.set("fault_class", fault_class);
  size_t nops = thorough ? size_t(2 + r.below(r.chance(1, 8) ? 600 : 80)) : size_t(2 + r.below(r.chance(1, 10) ? 200 : 40));
  int size_bias = int(r.below(3));   // 0: any, 1: small, 2: large
  for (size_t i = 0; i < nops; i++) {
    Op op;
    static const uint16_t ks[] = {kAdd, kAdd, kAdd, kAdd, kAddRepeat, kAddPart, kAddPart, kAddWider, kAddInvalid, kFill, kReset};
    op.kind = r.pick(ks);
    if (op.kind == kReset && (!allow_reset || !r.chance(1, 3))) op.kind = kAdd;
    op.a[0] = int64_t(op.kind == kAdd ? (size_bias == 1 ? r.below(4) : size_bias == 2 ? 3 + r.below(4) : r.below(7)) : r.below(100000));
    op.a[1] = int64_t(r.chance(1, 3) ? r.below(6) : (r.next() & 0x7fffffffffffll));
    op.a[2] = int64_t(r.below(1000));
    op.a[3] = int64_t(r.below(8));
    if (fault_class) {
      uint32_t den = fault_class == 1 ? 16 : 4;
      if (r.chance(1, den)) op.faults.push_back(sim::Fault{sim::kFaultArena, uint32_t(r.below(6)), 0});
      if (r.chance(1, den * 2)) op.faults.push_back(sim::Fault{sim::kFaultMalloc, uint32_t(r.below(2)), 0});
    }
    p.ops.push_back(op);
  }
  return p;
}

Plan generate_direct(uint64_t seed, bool thorough) { return generate_common(seed, thorough, true); }
Plan generate_embed(uint64_t seed, bool thorough) { return generate_common(seed, thorough, false); }

void shrink(const Plan& p, std::vector<Plan>& out) {
  static const char* const zero_keys[] = {"junk", "shift", "arena_block", "realloc_move", "code_buffer", "prefix_nops", "abandoned", "builder", "user_align"};
  for (const char* k : zero_keys) if (p.get(k)) { Plan q = p; q.set(k, 0); out.push_back(q); }
}

const sim::Scenario kDirect = {"C19", "pool", "asan", 300000, 6000000, generate_direct, execute_direct, op_name, shrink, nullptr};
const sim::Scenario kEmbed = {"C19", "embed", "asan", 100000, 1500000, generate_embed, execute_embed, op_name, shrink, nullptr};
const sim::Scenario kCompiler = {"C19", "compiler", "asan", 30000, 500000, generate_embed, execute_compiler, op_name, shrink, nullptr};
sim::Registrar r1(kDirect), r2(kEmbed), r3(kCompiler);

const char* const kAssumptions[] = {
  "Constants smaller than 4 bytes are not required to share storage with wider constants (the implementation documents that it stops splitting at 4 bytes); only identical (size, bytes) pairs must share an offset.",
  "After an injected allocation failure add() may fail; every offset returned before must remain valid.",
  nullptr};
const char* const kReal[] = {"asmjit ConstPool, Arena, x86/a64 Assembler and Builder embed_const_pool, x86/a64 Compiler _new_const + finalize (built from /repo)", nullptr};
const char* const kStub[] = {"H1 arena fault point, SimHeap failure decisions / junk fill, H3/H4 knobs", nullptr};
const sim::PropInfo kInfo = {"C19", "exploration",
  "Each run is one seed: arena block size, heap junk fill, fault class and a history of 2..600 add operations (fresh random / low-entropy / repeated values, halves-quarters-eighths of earlier constants, wider constants built from earlier ones, invalid sizes), fill() into a guarded buffer, reset(). "
  "Scenario 'pool' drives ConstPool directly; 'embed' writes the pool out through embed_const_pool of an Assembler or a Builder (+finalize) for x86-32, x86-64 and AArch64 behind 0..69 bytes of data; 'compiler' creates constants through the x86-64 or AArch64 Compiler (_new_const) in local and global scope and checks the finalized section. "
  "Oracle: byte-level reference model of every successful add (alignment, stability, deduplication, overlap only where bytes agree, zero gaps, bounds, reported size/alignment). Non-trivial = at least one constant was added; distinct = distinct event-log hashes.",
  kAssumptions, kReal, kStub};
sim::PropInfoRegistrar reginfo(kInfo);

} // namespace
