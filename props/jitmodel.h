// Interval reference model of JitAllocator (shared by C09, C11, C04 and C15).
//
// The model is event driven: block map/unmap events come from SimVM's observer, allocator results are fed in the order
// in which the allocator's critical sections were executed (program order when single threaded).
#ifndef PROPS_JITMODEL_H
#define PROPS_JITMODEL_H

#include "sim/sim.h"
#include <asmjit/core.h>
#include <string.h>
#include <map>
#include <string>
#include <vector>

namespace jitmodel {

using namespace asmjit;

struct Cfg {
  JitAllocatorOptions requested_options = JitAllocatorOptions::kNone;
  uint32_t requested_block_size = 0;
  uint32_t requested_granularity = 0;
  uint32_t requested_pattern = 0;
  // effective values (what the documentation promises for these parameters)
  uint32_t granularity = 64;
  uint32_t block_size = 65536;
  uint32_t pool_count = 1;
  uint32_t pattern = 0xCCCCCCCCu;
  bool fill = false, dual = false, padding = true, immediate = false, large_pages = false;
  bool constructed = true;   // false when the constructor's allocation was made to fail

  void derive(bool hardened) {
    uint32_t o = uint32_t(requested_options);
    pool_count = (o & uint32_t(JitAllocatorOptions::kUseMultiplePools)) ? 3 : 1;
    fill = (o & uint32_t(JitAllocatorOptions::kFillUnusedMemory)) != 0;
    immediate = (o & uint32_t(JitAllocatorOptions::kImmediateRelease)) != 0;
    padding = (o & uint32_t(JitAllocatorOptions::kDisableInitialPadding)) == 0;
    dual = (o & uint32_t(JitAllocatorOptions::kUseDualMapping)) != 0 || hardened;
    large_pages = (o & uint32_t(JitAllocatorOptions::kUseLargePages)) != 0;
    pattern = (o & uint32_t(JitAllocatorOptions::kCustomFillPattern)) ? requested_pattern : 0xCCCCCCCCu;
    uint32_t g = requested_granularity;
    granularity = (g < 64 || g > 256 || (g & (g - 1))) ? 64 : g;
    uint32_t b = requested_block_size;
    block_size = (b < 64 * 1024 || b > 256 * 1024 * 1024 || (b & (b - 1))) ? 65536 : b;
  }
};

struct SpanInfo { uintptr_t rx, rw; size_t size; uint64_t stamp; size_t requested; bool was_shrunk = false; };
struct Block { uintptr_t rx, rw; size_t size; size_t padding; bool padding_known; uint64_t file_id; };

class Model {
public:
  Cfg cfg;
  const char* prefix = "c09";
  std::map<uintptr_t, SpanInfo> live;
  std::map<uintptr_t, Block> blocks;      // by rx
  std::map<uint64_t, sim::vm::Mapping> pending_views;   // file_id -> first (rx) view of a dual mapping in progress
  uint64_t blocks_created = 0, blocks_deleted = 0;

  std::string cls(const char* oracle) const { return std::string(prefix) + ":" + oracle; }

  // ---- block events (from SimVM) ------------------------------------------------------------------------
  void on_vm_event(bool mapped, const sim::vm::Mapping& m) {
    if (mapped) {
      if (m.file_id == 0) { blocks[m.addr] = Block{m.addr, m.addr, m.size, 0, false, 0}; blocks_created++; return; }
      auto it = pending_views.find(m.file_id);
      if (it == pending_views.end()) { pending_views[m.file_id] = m; return; }
      sim::vm::Mapping rx = it->second;
      pending_views.erase(it);
      if (rx.size != m.size) sim::fail(cls("dual-view-size").c_str(), "the two views of a dual mapping have different sizes (%zu, %zu)", rx.size, m.size);
      blocks[rx.addr] = Block{rx.addr, m.addr, m.size, 0, false, m.file_id};
      blocks_created++;
    }
    else {
      for (auto it = pending_views.begin(); it != pending_views.end(); ++it) if (it->second.addr == m.addr) { pending_views.erase(it); return; }
      auto it = blocks.find(m.addr);
      if (it != blocks.end()) {
        // a block may only disappear when no live span lies inside it
        auto s = live.lower_bound(m.addr);
        if (s != live.end() && s->first < m.addr + m.size)
          sim::fail(cls("block-unmapped-with-live-span").c_str(), "block at %#zx (+%zu) was unmapped while the span at %#zx is live", size_t(m.addr), m.size, size_t(s->first));
        blocks.erase(it);
        blocks_deleted++;
        return;
      }
      // second (rw) view of a block that has just been removed, or of a failed dual mapping: nothing to do
    }
  }
  static void vm_observer(void* ctx, bool mapped, const sim::vm::Mapping& m) { static_cast<Model*>(ctx)->on_vm_event(mapped, m); }

  Block* block_of(uintptr_t rx) {
    auto it = blocks.upper_bound(rx);
    if (it == blocks.begin()) return nullptr;
    --it;
    if (rx >= it->second.rx + it->second.size) return nullptr;
    return &it->second;
  }

  // ---- allocator results ----------------------------------------------------------------------------------
  // Checks a successful alloc() and records the span. `new_block` tells whether a block was created during the call.
  void alloc_ok(size_t requested, const JitAllocator::Span& span, uint64_t stamp) {
    uintptr_t rx = uintptr_t(span.rx()), rw = uintptr_t(span.rw());
    size_t size = span.size();
    if (!rx) sim::fail(cls("null-span").c_str(), "alloc(%zu) succeeded with a null rx pointer", requested);
    if (!rw) sim::fail(cls("null-span").c_str(), "alloc(%zu) succeeded with a null rw pointer", requested);
    if (rx % cfg.granularity) sim::fail(cls("misaligned").c_str(), "alloc(%zu) returned rx=%#zx which is not aligned to the granularity %u", requested, size_t(rx), cfg.granularity);
    if (size < requested) sim::fail(cls("too-small").c_str(), "alloc(%zu) returned a span of only %zu bytes", requested, size);
    if (size % cfg.granularity) sim::fail(cls("size-granularity").c_str(), "alloc(%zu) returned a span of %zu bytes, not a multiple of the granularity %u", requested, size, cfg.granularity);
    if (size - requested >= size_t(cfg.granularity) << (cfg.pool_count - 1)) sim::fail(cls("oversized").c_str(), "alloc(%zu) returned a span of %zu bytes", requested, size);
    Block* b = block_of(rx);
    if (!b || rx + size > b->rx + b->size) sim::fail(cls("outside-block").c_str(), "alloc(%zu) returned rx range [%#zx,+%zu) that is not inside a mapped block", requested, size_t(rx), size);
    if (rw - b->rw != rx - b->rx) sim::fail(cls("rw-mismatch").c_str(), "alloc(%zu): rw view offset %#zx differs from rx view offset %#zx", requested, size_t(rw - b->rw), size_t(rx - b->rx));
    if (cfg.dual ? (rw == rx) : (rw != rx)) sim::fail(cls("dual-mapping").c_str(), "alloc(%zu): rw %s rx but dual mapping is %s", requested, rw == rx ? "==" : "!=", cfg.dual ? "on" : "off");
    // disjoint from every live span
    auto it = live.lower_bound(rx);
    if (it != live.end() && it->first < rx + size) sim::fail(cls("overlap").c_str(), "alloc(%zu) returned [%#zx,+%zu) overlapping the live span at %#zx (+%zu)", requested, size_t(rx), size, size_t(it->first), it->second.size);
    if (it != live.begin()) { --it; if (it->first + it->second.size > rx) sim::fail(cls("overlap").c_str(), "alloc(%zu) returned [%#zx,+%zu) overlapping the live span at %#zx (+%zu)", requested, size_t(rx), size, size_t(it->first), it->second.size); }
    // padding inference: the first span of a block tells how much initial padding the block has
    if (!b->padding_known) {
      b->padding = rx - b->rx; b->padding_known = true;
      if (!cfg.padding && b->padding != 0) sim::fail(cls("padding").c_str(), "initial padding is disabled but the first span of a block starts at offset %zu", b->padding);
      if (cfg.padding) {
        bool ok = false;
        for (uint32_t k = 0; k < cfg.pool_count; k++) if (b->padding == size_t(cfg.granularity) << k) ok = true;
        if (!ok) sim::fail(cls("padding").c_str(), "first span of a new block starts at offset %zu (granularity %u, %u pools)", b->padding, cfg.granularity, cfg.pool_count);
      }
    }
    else if (cfg.padding && rx - b->rx < b->padding) sim::fail(cls("padding").c_str(), "span handed out inside the initial padding of its block (offset %zu)", size_t(rx - b->rx));
    live[rx] = SpanInfo{rx, rw, size, stamp, requested, false};
  }

  void released(uintptr_t rx) { live.erase(rx); }

  // shrink(span, new_size) returned kOk with new_size > 0
  void shrunk(uintptr_t rx, size_t new_size, size_t reported) {
    auto it = live.find(rx);
    if (it == live.end()) return;
    size_t old = it->second.size;
    if (reported > old) sim::fail(cls("shrink-grew").c_str(), "shrink(%zu) of a %zu-byte span reports %zu bytes", new_size, old, reported);
    if (reported < new_size) sim::fail(cls("shrink-too-small").c_str(), "shrink(%zu) reports a span of %zu bytes", new_size, reported);
    if (reported % cfg.granularity) sim::fail(cls("size-granularity").c_str(), "shrink(%zu) reports %zu bytes, not a multiple of the granularity", new_size, reported);
    if (reported - new_size >= size_t(cfg.granularity) << (cfg.pool_count - 1)) sim::fail(cls("shrink-kept-too-much").c_str(), "shrink(%zu) of a %zu-byte span still reports %zu bytes", new_size, old, reported);
    if (reported != old) it->second.was_shrunk = true;
    it->second.size = reported;
  }

  size_t live_bytes() const { size_t n = 0; for (auto& kv : live) n += kv.second.size; return n; }
  size_t padding_bytes() const { size_t n = 0; for (auto& kv : blocks) if (kv.second.padding_known) n += kv.second.padding; return n; }
  size_t reserved_bytes() const { size_t n = 0; for (auto& kv : blocks) n += kv.second.size; return n; }

  void check_statistics(const JitAllocator::Statistics& st, const char* when) {
    if (st.allocation_count() != live.size()) sim::fail(cls("stats-allocation-count").c_str(), "%s: statistics().allocation_count() is %zu, %zu spans are live", when, st.allocation_count(), live.size());
    if (st.block_count() != blocks.size()) sim::fail(cls("stats-block-count").c_str(), "%s: statistics().block_count() is %zu, %zu blocks are mapped", when, st.block_count(), blocks.size());
    if (st.reserved_size() != reserved_bytes()) sim::fail(cls("stats-reserved").c_str(), "%s: statistics().reserved_size() is %zu, mapped blocks total %zu", when, st.reserved_size(), reserved_bytes());
    // used = live spans + initial padding of every block. Blocks whose padding was never observed (retained empty
    // block after reset) contribute one granule of one of the pools.
    size_t unknown = 0; for (auto& kv : blocks) if (!kv.second.padding_known) unknown++;
    size_t base = live_bytes() + padding_bytes();
    size_t lo = base + (cfg.padding ? unknown * cfg.granularity : 0);
    size_t hi = base + (cfg.padding ? unknown * (size_t(cfg.granularity) << (cfg.pool_count - 1)) : 0);
    if (st.used_size() < lo || st.used_size() > hi) sim::fail(cls("stats-used").c_str(), "%s: statistics().used_size() is %zu, live spans total %zu plus %zu bytes of padding", when, st.used_size(), live_bytes(), padding_bytes());
    if ((st.overhead_size() != 0) != !blocks.empty()) sim::fail(cls("stats-overhead").c_str(), "%s: overhead_size() is %zu with %zu blocks", when, st.overhead_size(), blocks.size());
    if (st.used_size() > st.reserved_size()) sim::fail(cls("stats-used").c_str(), "%s: used_size() %zu exceeds reserved_size() %zu", when, st.used_size(), st.reserved_size());
  }

  // After everything was released / after reset: the number of retained (empty) blocks must respect the policy.
  void check_empty_policy(const char* when, bool hard_reset) {
    if (!live.empty()) return;
    size_t allowed = (cfg.immediate || hard_reset) ? 0 : cfg.pool_count;
    if (blocks.size() > allowed) sim::fail(cls("empty-blocks-retained").c_str(), "%s: %zu empty block(s) are retained, the configuration allows %zu", when, blocks.size(), allowed);
  }

  // Fill pattern: every byte of every mapped block outside live spans carries the pattern (when filling is enabled).
  void check_fill(const char* when) {
    if (!cfg.fill) return;
    uint8_t pat[4]; memcpy(pat, &cfg.pattern, 4);
    for (auto& kv : blocks) {
      const Block& b = kv.second;
      uintptr_t pos = b.rx, end = b.rx + b.size;
      auto it = live.lower_bound(b.rx);
      while (pos < end) {
        uintptr_t next_live = (it != live.end() && it->first < end) ? it->first : end;
        const uint8_t* p = reinterpret_cast<const uint8_t*>(pos);
        for (uintptr_t a = pos; a < next_live; a++, p++) {
          if (*p != pat[(a - b.rx) & 3]) sim::fail(cls("fill-pattern").c_str(), "%s: byte at block offset %zu (outside every live span) is %#x, fill pattern is %#x", when, size_t(a - b.rx), unsigned(*p), cfg.pattern);
        }
        if (next_live == end) break;
        pos = next_live + it->second.size; ++it;
      }
    }
  }
};

// Stamps: the first 8 bytes of every granule of a span hold stamp + offset; any overlap between two spans (which is at
// least one granule wide) destroys a stamp.
inline void write_stamp(const SpanInfo& s, uint32_t granularity) {
  uint8_t* p = reinterpret_cast<uint8_t*>(s.rw);
  for (size_t off = 0; off + 8 <= s.size; off += granularity) { uint64_t v = s.stamp + off; memcpy(p + off, &v, 8); }
}
inline void check_stamp(const SpanInfo& s, uint32_t granularity, const char* prefix, const char* when) {
  const uint8_t* p = reinterpret_cast<const uint8_t*>(s.rx);
  for (size_t off = 0; off + 8 <= s.size; off += granularity) {
    uint64_t v; memcpy(&v, p + off, 8);
    if (v != s.stamp + off) sim::fail((std::string(prefix) + ":span-corrupted").c_str(), "%s: span at %#zx (+%zu) lost its contents at offset %zu (read through rx)", when, size_t(s.rx), s.size, off);
  }
}

} // namespace jitmodel

#endif
