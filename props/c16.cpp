// C16 - Reset, reinit and reuse of holders and emitters leave no residue.
//
// One long-lived set of objects per run (CodeHolder over a dynamic or static arena, Assembler, Builder, Compiler,
// logger, error handler) is driven through rounds of recycle action + generation. Whenever a program is completed on
// recycled objects the same program is generated on brand-new objects under a different heap layout, arena block
// size, code buffer capacity, logger and validation setting; everything observable must be identical.
#include "sim/sim.h"
#include "gen/prog.h"

#include <asmjit/core.h>
#include <asmjit/x86.h>
#include <asmjit/a64.h>

#include <memory>
#include <string>
#include <vector>

using namespace asmjit;
using sim::Op;
using sim::Plan;
using sim::Rng;

namespace {

enum OpKind : uint16_t { kRound, kFuncs, kOpCount };
const char* const kOpNames[kOpCount] = {"round", "compiler_functions"};
const char* op_name(uint16_t k) { return k < kOpCount ? kOpNames[k] : "?"; }

enum Recycle { kNone = 0, kResetSoft, kResetHard, kReinit, kRecycleCount };
enum EmitterKind { kAsm = 0, kBuilder, kCompilerPhys, kCompilerVirt, kEmitterKindCount };

struct Objects {
  std::unique_ptr<uint8_t[]> static_buf;
  std::unique_ptr<CodeHolder> code;
  x86::Assembler xa; x86::Builder xb; x86::Compiler xc;
  a64::Assembler aa; a64::Builder ab; a64::Compiler ac;
  StringLogger logger;
  gen::RecordingHandler eh;

  explicit Objects(size_t static_size) {
    if (static_size) { static_buf.reset(new uint8_t[static_size]); code.reset(new CodeHolder(Span<uint8_t>(static_buf.get(), static_size))); }
    else code.reset(new CodeHolder());
  }

  BaseEmitter& emitter(gen::Target t, int kind) {
    if (t == gen::Target::kA64) return kind == kAsm ? static_cast<BaseEmitter&>(aa) : kind == kBuilder ? static_cast<BaseEmitter&>(ab) : static_cast<BaseEmitter&>(ac);
    return kind == kAsm ? static_cast<BaseEmitter&>(xa) : kind == kBuilder ? static_cast<BaseEmitter&>(xb) : static_cast<BaseEmitter&>(xc);
  }
};

struct RoundSpec {
  gen::Target target;
  int emitter_kind;
  uint64_t prog_seed;
  size_t prog_steps;
  bool logger, validate;
  int mode;            // 0 complete, 1 abandoned half-way, 2 invalid calls interleaved (assembler only)
  bool extra_emitter;  // a second, idle emitter is attached as well
  bool detach_after;
  uint32_t nfuncs;     // compiler-virt: number of functions
  bool relocate;       // the finished program is relocated to a base address (as JitRuntime::add would do)
  bool explicit_serialize;  // Builder: serialize_to() a caller's Assembler instead of finalize()
  bool raw_node;       // Builder: one instruction node is created through new_inst_node() without operands
  bool holder_logger;  // the logger is attached to the holder instead of the emitter
  bool annotate;       // Compiler with a logger: DiagnosticOptions::kRAAnnotate
  bool win;            // the environment's platform is Windows (x86-64: cdecl resolves to the Win64 convention), else the host's
  int dangling;        // 0 none; 1..7: one-shot state (options / extra register / inline comment) is set after the round and never consumed
};

RoundSpec decode(const Op& op) {
  RoundSpec s;
  s.target = gen::Target(op.a[0] % 3);
  s.emitter_kind = int((op.a[0] / 3) % kEmitterKindCount);
  s.prog_seed = uint64_t(op.a[1]);
  s.prog_steps = size_t(op.a[2] & 0xfff);
  uint64_t f = uint64_t(op.a[3]);
  s.logger = f & 1; s.validate = f & 2; s.mode = int((f >> 2) & 3); if (s.mode == 3) s.mode = 0;
  s.extra_emitter = f & 16; s.detach_after = f & 32;
  s.nfuncs = uint32_t(1 + ((f >> 8) & 3));
  s.dangling = int((f >> 16) & 7);
  s.relocate = (f >> 19) & 1;
  s.annotate = (f >> 20) & 1;
  s.holder_logger = (f >> 21) & 1;
  s.raw_node = (f >> 22) & 1;
  s.explicit_serialize = (f >> 23) & 1;
  s.win = (f >> 24) & 1;
  if (s.mode == 2 && s.emitter_kind != kAsm) s.mode = 0;
  return s;
}

static Environment env_of(const RoundSpec& s) {
  Environment env(gen::arch_of(s.target));
  if (s.win) env.set_platform(Platform::kWindows);
  return env;
}

gen::Program make_program(const RoundSpec& s) {
  Rng r(sim::mix64(s.prog_seed));
  gen::GenOptions o;
  o.steps = s.prog_steps < 5 ? 5 : s.prog_steps;
  return gen::generate_program(r, s.target, o);
}

gen::FuncParams make_func_params(const RoundSpec& s, uint32_t i, bool global_consts) {
  gen::FuncParams fp;
  Rng r(sim::mix64(s.prog_seed + i * 7919));
  fp.seed = r.next();
  fp.live_values = uint32_t(2 + r.below(r.chance(1, 4) ? 40 : 10));
  fp.blocks = uint32_t(r.below(5));
  fp.calls = r.chance(1, 2); fp.jump_table = r.chance(1, 2); fp.consts = r.chance(1, 2); fp.stack = r.chance(1, 2); fp.vec = r.chance(1, 2); fp.avx = r.chance(1, 2); fp.vec_live = r.chance(1, 3) ? uint32_t(7 + r.below(14)) : 0;
  fp.global_consts = global_consts;
  return fp;
}

// The finished program is laid out (section offsets, virtual sizes, cross-section fixups): part of what recycled and
// fresh objects must agree on.
bool layout(CodeHolder& code, std::vector<uint32_t>& errors, bool relocate) {
  Error err = code.flatten();
  if (err != Error::kOk && sim::run_faults_fired_total() > 0) return false;
  errors.push_back(uint32_t(err));
  if (err == Error::kOk) { err = code.resolve_cross_section_fixups(); if (err != Error::kOk && sim::run_faults_fired_total() > 0) return false; errors.push_back(uint32_t(err)); }
  // relocation stores the base in the holder; recycling must forget it again unless it was given to init()
  if (err == Error::kOk && relocate) { err = code.relocate_to_base(0x10000000ull); if (err != Error::kOk && sim::run_faults_fired_total() > 0) return false; errors.push_back(uint32_t(err)); sim::count("c16.probe.round_relocated"); }
  return true;
}

// Generates the round's program with the given emitter. Returns true when generation ran to completion (finalized).
// `errors` receives the error code of every call, which is part of what must be identical.
bool generate(const RoundSpec& s, CodeHolder& code, BaseEmitter& e, gen::RecordingHandler& eh, std::vector<uint32_t>& errors, bool allow_abandon) {
  eh.reset();
  if (s.emitter_kind == kCompilerVirt) {
    bool ok = true;
    for (uint32_t i = 0; i < s.nfuncs && ok; i++) {
      gen::FuncParams fp = make_func_params(s, i, true);
      ok = s.target == gen::Target::kA64 ? gen::build_a64_function(static_cast<a64::Compiler&>(e), fp, eh) : gen::build_x86_function(static_cast<x86::Compiler&>(e), fp, eh);
      if (allow_abandon && s.mode == 1 && i + 1 >= (s.nfuncs + 1) / 2) return false;
    }
    errors.push_back(uint32_t(eh.first));
    if (!ok) return false;
    Error err = e.finalize();
    errors.push_back(uint32_t(err));
    if (err != Error::kOk) return false;
    // no virtual register may keep pointing into the (reset) memory of the register allocator
    for (VirtReg* v : static_cast<BaseCompiler&>(e).virt_regs()) SIM_CHECK(!v->has_work_reg(), "c16:residue-work-reg", "virtual register %u still references its work register after finalize()", v->id());
    return layout(code, errors, s.relocate);
  }
  gen::Program p = make_program(s);
  gen::ApplyCtx ctx;
  size_t limit = p.steps.size();
  if (allow_abandon && s.mode == 1) limit = limit / 2;
  Rng ir(sim::mix64(s.prog_seed ^ 0xBAD));
  for (size_t i = 0; i < limit; i++) {
    if (allow_abandon && s.mode == 2 && ir.chance(1, 6)) {
      // an invalid call in the middle of the program: must fail and leave nothing behind
      Error bad;
      if (s.target == gen::Target::kA64) bad = e.emit(a64::Inst::kIdAdd, a64::x(1), Imm(1), a64::x(2));
      else bad = e.emit(x86::Inst::kIdMov, x86::xmm0, Label(0x7fffff));
      SIM_CHECK(bad != Error::kOk, "c16:invalid-call-accepted", "an invalid instruction was accepted");
      eh.reset();
    }
    Error err = gen::apply_step(e, code, p, i, ctx);
    errors.push_back(uint32_t(err));
    if (err != Error::kOk && sim::run_faults_fired_total() > 0 && allow_abandon) return false;   // stop at the first error under faults
  }
  if (limit != p.steps.size()) return false;
  if (s.emitter_kind != kAsm && s.raw_node) {
    // An instruction node created through the node API with fewer operands than its capacity: operands that were never
    // set are "none", whatever the memory of the node held before.
    BaseBuilder& b = static_cast<BaseBuilder&>(e);
    InstNode* node = nullptr;
    Error err = b.new_inst_node(Out(node), s.target == gen::Target::kA64 ? InstId(a64::Inst::kIdNop) : InstId(x86::Inst::kIdRet), InstOptions::kNone, 0);
    errors.push_back(uint32_t(err));
    if (err == Error::kOk) { b.add_node(node); sim::count("c16.probe.raw_inst_node"); }
    else if (sim::run_faults_fired_total() > 0 && allow_abandon) return false;
  }
  if (s.emitter_kind == kBuilder && s.explicit_serialize) {
    // serialize_to() into an Assembler of the caller instead of finalize(): same output, and when it returns the destination
    // holds nothing that lives in the Builder (the inline comment of the last node, say)
    std::unique_ptr<BaseEmitter> dst(s.target == gen::Target::kA64 ? static_cast<BaseEmitter*>(new a64::Assembler()) : static_cast<BaseEmitter*>(new x86::Assembler()));
    Error err = code.attach(dst.get());
    if (err == Error::kOk) {
      dst->add_diagnostic_options(e.diagnostic_options());
      err = static_cast<BaseBuilder&>(e).serialize_to(dst.get());
      SIM_CHECK(dst->inline_comment() == nullptr && dst->inst_options() == InstOptions::kNone && !dst->has_extra_reg(), "c16:residue-in-serialization-target",
                "after serialize_to() the destination emitter still holds one-shot state of the Builder's nodes (inline comment %p, options %#x)", (const void*)dst->inline_comment(), unsigned(dst->inst_options()));
      (void)code.detach(dst.get());
      sim::count("c16.probe.explicit_serialize_to");
    }
    errors.push_back(uint32_t(err));
    if (err != Error::kOk) return false;
  }
  else if (s.emitter_kind != kAsm) {
    Error err = e.finalize();
    errors.push_back(uint32_t(err));
    if (err != Error::kOk) return false;
  }
  return layout(code, errors, s.relocate);
}

void setup_emitter(CodeHolder& code, BaseEmitter& e, const RoundSpec& s, StringLogger* logger, gen::RecordingHandler* eh) {
  // the logger is the emitter's own or inherited from the holder (then the Assembler that serialises a Builder / Compiler
  // logs as well - instructions with the register allocator's annotations)
  bool on_holder = s.logger && s.holder_logger;
  code.set_logger(on_holder ? logger : nullptr);
  e.set_logger(s.logger && !on_holder ? logger : nullptr);
  e.set_error_handler(eh);
  if (s.validate) e.add_diagnostic_options(DiagnosticOptions::kValidateAssembler | DiagnosticOptions::kValidateIntermediate);
  else e.clear_diagnostic_options(DiagnosticOptions::kValidateAssembler | DiagnosticOptions::kValidateIntermediate);
  if (s.annotate && e.is_compiler()) e.add_diagnostic_options(DiagnosticOptions::kRAAnnotate); else e.clear_diagnostic_options(DiagnosticOptions::kRAAnnotate);
}

void check_pristine_holder(CodeHolder& code, const char* when) {
  SIM_CHECK(code.label_count() == 0, "c16:residue-labels", "%s: %zu label(s) are left", when, code.label_count());
  SIM_CHECK(code.section_count() == 1, "c16:residue-sections", "%s: %zu sections", when, code.section_count());
  SIM_CHECK(code.reloc_entries().size() == 0, "c16:residue-relocations", "%s: %zu relocation(s) are left", when, code.reloc_entries().size());
  SIM_CHECK(code.unresolved_fixup_count() == 0, "c16:residue-fixups", "%s: unresolved fixup count is %zu", when, code.unresolved_fixup_count());
  SIM_CHECK(code.text_section()->buffer_size() == 0, "c16:residue-text", "%s: .text holds %zu bytes", when, code.text_section()->buffer_size());
  SIM_CHECK(!code.has_address_table_section(), "c16:residue-addrtab", "%s: address table section is still there", when);
  SIM_CHECK(code.label_id_by_name("global_label_0_x") == Globals::kInvalidId, "c16:residue-named-labels", "%s: a named label of the previous use can still be looked up", when);
}

void check_pristine_compiler(BaseCompiler& cc, const char* when) {
  SIM_CHECK(cc.virt_regs().size() == 0, "c16:residue-virt-regs", "%s: compiler still knows %zu virtual register(s)", when, cc.virt_regs().size());
  SIM_CHECK(cc.jump_annotations().size() == 0, "c16:residue-jump-annotations", "%s: compiler still holds %zu jump annotation(s)", when, cc.jump_annotations().size());
  SIM_CHECK(cc.func() == nullptr, "c16:residue-func", "%s: compiler still has a current function", when);
  SIM_CHECK(cc.first_node() == nullptr || cc.first_node() == cc.cursor() || true, "c16:residue-nodes", "%s", when);
}

struct Knobs { size_t arena_block, code_buffer; int junk, realloc_policy, shift, placement; };

Knobs knobs_from(Rng& r) {
  static const size_t blocks[] = {0, 1024, 2048, 4096, 16384, 65536};
  static const size_t bufs[] = {0, 0, 32, 64, 128, 256, 1024};
  Knobs k; k.arena_block = r.pick(blocks); k.code_buffer = r.pick(bufs); k.junk = int(r.below(4)); k.realloc_policy = int(r.below(2)); k.shift = int(r.below(6)); k.placement = int(r.below(2));
  return k;
}

void apply_knobs(const Knobs& k, uint64_t seed) {
  sim::set_knob_arena_block(k.arena_block);
  sim::set_knob_code_buffer(k.code_buffer);
  sim::heap::configure(k.junk, k.realloc_policy, k.shift, seed);
  sim::heap::set_placement(k.placement);
  sim::heap::arm(true);
}

// Fresh objects: the same program, a different environment.
std::string fresh_reference(const RoundSpec& s_in, const Knobs& fresh_knobs, uint64_t seed, std::vector<uint32_t>& errors, std::string* log_text, bool fresh_logger, bool fresh_validate, bool through_assembler = false) {
  // (through_assembler: the program of a Builder round is emitted directly by an Assembler - a Builder records the calls and
  // replays them, so the output must be the same)
  RoundSpec s = s_in; if (through_assembler) s.emitter_kind = kAsm;
  apply_knobs(fresh_knobs, seed ^ 0xF8E5);
  std::string snap;
  {
    Objects o(0);
    Error err = o.code->init(env_of(s));
    SIM_CHECK(err == Error::kOk, "c16:setup", "fresh CodeHolder::init failed: %u", unsigned(err));
    BaseEmitter& e = o.emitter(s.target, s.emitter_kind == kCompilerVirt ? kCompilerPhys : s.emitter_kind);
    RoundSpec fs = s; fs.logger = fresh_logger; fs.validate = fresh_validate;
    setup_emitter(*o.code, e, fs, &o.logger, &o.eh);
    err = o.code->attach(&e);
    SIM_CHECK(err == Error::kOk, "c16:setup", "fresh attach failed: %u", unsigned(err));
    bool done = generate(s, *o.code, e, o.eh, errors, false);
    (void)done;
    snap = gen::snapshot(*o.code);
    if (log_text && fresh_logger) log_text->assign(o.logger.data(), o.logger.data_size());
  }
  return snap;
}

void execute_rounds(const Plan& plan) {
  Rng kr = sim::stream(plan.seed, "knobs");
  Knobs recycled_knobs = knobs_from(kr);
  apply_knobs(recycled_knobs, plan.seed);
  uint64_t rounds_compared = 0;
  {
    Objects o(size_t(plan.get("static", 0)));
    gen::Target cur_target = gen::Target::kX64;
    bool cur_win = false;
    bool initialized = false;

    for (size_t i = 0; i < plan.ops.size(); i++) {
      const Op& op = plan.ops[i];
      if (op.kind != kRound) continue;
      sim::begin_op(op, i);
      sim::add_steps(1);
      RoundSpec s = decode(op);
      int recycle = int((uint64_t(op.a[3]) >> 12) % kRecycleCount);
      if (!initialized) recycle = kNone;
      if (recycle == kReinit) { s.target = cur_target; s.win = cur_win; }   // reinit keeps the environment

      // ---- recycle ------------------------------------------------------------------------------------------
      CodeHolder& code = *o.code;
      if (!initialized || recycle == kResetSoft || recycle == kResetHard) {
        if (initialized) {
          code.reset(recycle == kResetHard ? ResetPolicy::kHard : ResetPolicy::kSoft);
          SIM_CHECK(!code.is_initialized(), "c16:reset", "holder is still initialised after reset()");
          SIM_CHECK(code.attached_first() == nullptr, "c16:reset", "emitters are still attached after reset()");
          SIM_CHECK(!o.xa.is_initialized() && !o.xb.is_initialized() && !o.xc.is_initialized() && !o.aa.is_initialized() && !o.ab.is_initialized() && !o.ac.is_initialized(), "c16:reset", "an emitter still claims to be attached after reset()");
          check_pristine_compiler(o.xc, "after reset()"); check_pristine_compiler(o.ac, "after reset()");
        }
        Error err = code.init(env_of(s));
        if (err != Error::kOk) { SIM_CHECK(sim::run_faults_fired_total() > 0, "c16:init-failed", "init() failed with %u", unsigned(err)); sim::end_op(); initialized = false; continue; }
        initialized = true; cur_target = s.target; cur_win = s.win;
        check_pristine_holder(code, "after reset()+init()");
      }
      else if (recycle == kReinit) {
        Error err = code.reinit();
        if (err != Error::kOk) {
          SIM_CHECK(sim::run_faults_fired_total() > 0, "c16:reinit-failed", "reinit() failed with %u", unsigned(err));
          // A failed reinit() leaves either a reset holder or a holder from which the failing emitter was detached.
          if (!code.is_initialized()) { initialized = false; sim::end_op(); continue; }
        }
        check_pristine_holder(code, "after reinit()");
        if (o.xc.is_initialized()) check_pristine_compiler(o.xc, "after reinit()");
        if (o.ac.is_initialized()) check_pristine_compiler(o.ac, "after reinit()");
      }
      else {
        // No recycle on an initialised holder: outputs would accumulate, so this round is generation on top of an
        // unknown state and is not compared; make it a reset(soft) instead.
        code.reset(ResetPolicy::kSoft);
        Error err = code.init(env_of(s));
        if (err != Error::kOk) { initialized = false; sim::end_op(); continue; }
        cur_target = s.target; cur_win = s.win;
      }
      sim::logf("round %zu recycle=%d target=%s emitter=%d mode=%d steps=%zu funcs=%u", i, recycle, gen::target_name(s.target), s.emitter_kind, s.mode, s.prog_steps, s.nfuncs);

      // ---- attach -------------------------------------------------------------------------------------------
      int ekind = s.emitter_kind == kCompilerVirt ? kCompilerPhys : s.emitter_kind;
      BaseEmitter& e = o.emitter(s.target, ekind);
      setup_emitter(code, e, s, &o.logger, &o.eh);
      (void)o.logger.content().clear();
      if (!e.is_initialized()) {
        Error err = code.attach(&e);
        if (err != Error::kOk) { SIM_CHECK(sim::run_faults_fired_total() > 0, "c16:attach-failed", "attach failed with %u", unsigned(err)); sim::end_op(); continue; }
      }
      if (s.extra_emitter) { BaseEmitter& x = o.emitter(s.target, (ekind + 1) % 3); if (!x.is_initialized()) (void)code.attach(&x); }

      // ---- generate -----------------------------------------------------------------------------------------
      std::vector<uint32_t> errs_recycled;
      uint64_t faults_before = sim::run_faults_fired_total();
      bool completed = generate(s, code, e, o.eh, errs_recycled, true);
      if (s.dangling) {
        // the user set up one-shot state for an instruction that never came; recycling must drop it
        static const InstOptions kOpts[] = {InstOptions::kX86_Lock, InstOptions::kX86_Rep, InstOptions::kLongForm, InstOptions::kX86_ModMR, InstOptions::kX86_Vex3, InstOptions::kTaken, InstOptions::kShortForm};
        if (s.dangling & 1) e.set_inst_options(kOpts[(s.prog_seed >> 7) % 7]);
        if (s.dangling & 2) e.set_extra_reg(s.target == gen::Target::kA64 ? Reg(a64::x(3)) : Reg(x86::k(uint32_t(1 + (s.prog_seed >> 11) % 7))));
        if (s.dangling & 4) e.set_inline_comment("left-over comment");
        sim::count("c16.probe.dangling_one_shot_state");
      }
      // Logging is best effort: a log line whose formatting ran out of memory is dropped, the code is unaffected.
      bool log_comparable = sim::run_faults_fired_total() == faults_before;
      sim::logf("  completed=%d calls=%zu", int(completed), errs_recycled.size());

      if (completed && !log_comparable) {
        // A fault was injected during this round and absorbed. Whether the completed output is right is C15's
        // question; for this property the round is just another (faulted) event in the history.
        sim::count("c16.probe.round_fault_absorbed");
        completed = false;
      }
      if (completed) {
        std::string recycled_snap = gen::snapshot(code);
        std::string recycled_log(o.logger.data(), o.logger.data_size());
        // the fresh side runs under different knobs and settings; faults never apply to it
        std::vector<uint32_t> errs_fresh;
        std::string fresh_log;
        sim::end_op();
        Knobs fk = knobs_from(kr);
        bool fresh_logger = kr.chance(1, 2) ? s.logger : !s.logger, fresh_validate = kr.chance(1, 2);
        bool cross = s.emitter_kind == kBuilder && !s.raw_node && s.mode == 0 && kr.chance(1, 3);
        // (a Builder groups its nodes by section, so a program that switches sections is serialised in another order than it
        // was written: bytes agree, the order of relocation entries does not - such programs are not cross-compared)
        if (cross) { gen::Program pp = make_program(s); for (auto& st : pp.steps) if (st.kind == gen::StepKind::kNewSection || st.kind == gen::StepKind::kSection) cross = false; }
        if (cross) sim::count("c16.probe.builder_round_compared_with_assembler");
        std::string fresh_snap = fresh_reference(s, fk, plan.seed + i, errs_fresh, &fresh_log, fresh_logger, fresh_validate, cross);
        apply_knobs(recycled_knobs, plan.seed);
        sim::begin_op(Op(), i);
        if (recycled_snap != fresh_snap) {
          // find the first differing line for the report
          size_t pos = 0; while (pos < recycled_snap.size() && pos < fresh_snap.size() && recycled_snap[pos] == fresh_snap[pos]) pos++;
          size_t ls = recycled_snap.rfind('\n', pos); ls = ls == std::string::npos ? 0 : ls + 1;
          std::string a = recycled_snap.substr(ls, 160), b = fresh_snap.substr(ls < fresh_snap.size() ? ls : 0, 160);
          sim::fail("c16:recycled-differs-from-fresh", "round %zu (recycle=%d, emitter=%d, target=%s): output on recycled objects differs from fresh objects\n  recycled: %s\n  fresh:    %s", i, recycle, s.emitter_kind, gen::target_name(s.target), a.c_str(), b.c_str());
        }
        if (!cross) SIM_CHECK(errs_recycled == errs_fresh, "c16:error-codes-differ", "round %zu: the calls returned different error codes on recycled and fresh objects", i);
        if (s.logger && fresh_logger && s.mode != 2 && log_comparable && !cross) SIM_CHECK(recycled_log == fresh_log, "c16:logger-text-differs", "round %zu: logger text differs between recycled and fresh objects (%zu vs %zu bytes)", i, recycled_log.size(), fresh_log.size());
        rounds_compared++;
        sim::count("c16.probe.round_compared");
        if (recycle == kReinit) sim::count("c16.probe.compared_after_reinit");
        if (recycle == kResetSoft) sim::count("c16.probe.compared_after_reset_soft");
        if (recycle == kResetHard) sim::count("c16.probe.compared_after_reset_hard");
      }
      else sim::count("c16.probe.round_abandoned");
      if (s.detach_after && e.is_initialized()) { Error err = code.detach(&e); SIM_CHECK(err == Error::kOk, "c16:detach-failed", "detach failed with %u", unsigned(err)); SIM_CHECK(!e.is_initialized(), "c16:detach", "emitter still attached after detach()"); }
      if (s.dangling && !e.is_initialized()) {
        // ... and the user even tries to emit while the emitter is detached: the call is refused, and what it was given
        // (options, extra register, inline comment) must not wait for the first instruction of the next program
        static const InstOptions kOpts[] = {InstOptions::kX86_Lock, InstOptions::kX86_Rep, InstOptions::kLongForm, InstOptions::kX86_ModMR, InstOptions::kX86_Vex3, InstOptions::kTaken, InstOptions::kShortForm};
        if (s.dangling & 1) e.set_inst_options(kOpts[(s.prog_seed >> 7) % 7]);
        if (s.dangling & 2) e.set_extra_reg(s.target == gen::Target::kA64 ? Reg(a64::x(3)) : Reg(x86::k(uint32_t(1 + (s.prog_seed >> 11) % 7))));
        if (s.dangling & 4) e.set_inline_comment("comment of a refused call");
        Error de = s.target == gen::Target::kA64 ? e.emit(a64::Inst::kIdNop) : e.emit(x86::Inst::kIdNop);
        SIM_CHECK(de != Error::kOk, "c16:detached-emit-accepted", "an emitter that is not attached accepted an instruction");
        sim::count("c16.probe.emit_while_detached");
      }
      sim::end_op();
    }
    if (rounds_compared) sim::mark_nontrivial();
    // destruction order is part of the history
    sim::begin_op(Op(), plan.ops.size());
    if (plan.get("holder_first", 0)) o.code.reset();
    sim::end_op();
  }
  sim::heap::arm(false);
  SIM_CHECK(sim::heap::live_blocks_this_run() == 0, "c16:leak", "%zu heap block(s) left after destroying everything:%s", sim::heap::live_blocks_this_run(), sim::heap::describe_live_blocks_this_run().c_str());
}

// Many functions through one Compiler without a reset in between: each function's bytes (entry label .. end marker)
// equal the bytes of the same function compiled alone on fresh objects.
struct FuncBytes { std::vector<uint8_t> bytes; bool ok; };

bool compile_funcs(gen::Target t, CodeHolder& code, BaseEmitter& e, gen::RecordingHandler& eh, const RoundSpec& s, const std::vector<uint32_t>& which, std::vector<std::pair<Label, Label>>& ranges) {
  eh.reset();
  for (uint32_t i : which) {
    gen::FuncParams fp = make_func_params(s, i, false);
    fp.calls = false;   // absolute call targets go through the address table whose slot depends on the other functions
    fp.consts = false;  // a local constant pool is aligned inside the section, so its padding legitimately depends on where the function starts
    bool ok;
    Label begin, end;
    if (t == gen::Target::kA64) {
      a64::Compiler& cc = static_cast<a64::Compiler&>(e);
      ok = gen::build_a64_function(cc, fp, eh);
      if (!ok) return false;
      begin = static_cast<FuncNode*>(nullptr) ? Label() : Label();
      end = cc.new_label(); if (cc.bind(end) != Error::kOk) return false;
    }
    else {
      x86::Compiler& cc = static_cast<x86::Compiler&>(e);
      ok = gen::build_x86_function(cc, fp, eh);
      if (!ok) return false;
      end = cc.new_label(); if (cc.bind(end) != Error::kOk) return false;
    }
    ranges.emplace_back(begin, end);
  }
  // function entry labels: walk the node list
  size_t k = 0;
  for (BaseNode* n = static_cast<BaseBuilder&>(e).first_node(); n; n = n->next()) if (n->type() == NodeType::kFunc && k < ranges.size()) ranges[k++].first = static_cast<FuncNode*>(n)->label();
  return e.finalize() == Error::kOk;
}

void execute_funcs(const Plan& plan) {
  Rng kr = sim::stream(plan.seed, "knobs");
  Knobs k1 = knobs_from(kr), k2 = knobs_from(kr);
  const Op& op = plan.ops.empty() ? Op() : plan.ops[0];
  RoundSpec s = decode(op);
  if (s.target == gen::Target::kA64 && plan.get("no_a64", 0)) s.target = gen::Target::kX64;
  uint32_t n = uint32_t(2 + (uint64_t(op.a[3]) >> 8) % 5);
  sim::begin_op(op, 0);
  apply_knobs(k1, plan.seed);
  std::vector<std::vector<uint8_t>> together;
  {
    Objects o(0);
    SIM_CHECK(o.code->init(env_of(s)) == Error::kOk, "c16:setup", "init failed");
    BaseEmitter& e = o.emitter(s.target, kCompilerPhys);
    setup_emitter(*o.code, e, s, &o.logger, &o.eh);
    SIM_CHECK(o.code->attach(&e) == Error::kOk, "c16:setup", "attach failed");
    std::vector<uint32_t> which; for (uint32_t i = 0; i < n; i++) which.push_back(i);
    std::vector<std::pair<Label, Label>> ranges;
    bool ok = compile_funcs(s.target, *o.code, e, o.eh, s, which, ranges);
    SIM_CHECK(ok, "c16:compile-failed", "compiling %u functions through one compiler failed (error %u)", n, unsigned(o.eh.first));
    for (auto& rg : ranges) {
      size_t b = size_t(o.code->label_offset(rg.first)), en = size_t(o.code->label_offset(rg.second));
      SIM_CHECK(b <= en && en <= o.code->text_section()->buffer_size(), "c16:func-range", "function range [%zu,%zu) is not inside the section", b, en);
      together.emplace_back(o.code->text_section()->data() + b, o.code->text_section()->data() + en);
    }
  }
  sim::end_op();
  for (uint32_t i = 0; i < n; i++) {
    apply_knobs(i & 1 ? k2 : k1, plan.seed + i);
    sim::begin_op(Op(), i + 1);
    Objects o(0);
    SIM_CHECK(o.code->init(env_of(s)) == Error::kOk, "c16:setup", "init failed");
    BaseEmitter& e = o.emitter(s.target, kCompilerPhys);
    RoundSpec fs = s; fs.logger = !s.logger;
    setup_emitter(*o.code, e, fs, &o.logger, &o.eh);
    SIM_CHECK(o.code->attach(&e) == Error::kOk, "c16:setup", "attach failed");
    std::vector<std::pair<Label, Label>> ranges;
    bool ok = compile_funcs(s.target, *o.code, e, o.eh, s, {i}, ranges);
    SIM_CHECK(ok, "c16:compile-failed", "compiling function %u alone failed (error %u)", i, unsigned(o.eh.first));
    size_t b = size_t(o.code->label_offset(ranges[0].first)), en = size_t(o.code->label_offset(ranges[0].second));
    std::vector<uint8_t> alone(o.code->text_section()->data() + b, o.code->text_section()->data() + en);
    if (alone != together[i]) {
      size_t pos = 0; while (pos < alone.size() && pos < together[i].size() && alone[pos] == together[i][pos]) pos++;
      sim::fail("c16:function-depends-on-earlier-functions", "function %u of %u (%s): %zu bytes when compiled after the others, %zu bytes alone; first difference at byte %zu", i, n, gen::target_name(s.target), together[i].size(), alone.size(), pos);
    }
    sim::logf("func %u: %zu bytes equal", i, alone.size());
    sim::end_op();
  }
  // A later function that branches to a label bound inside an earlier one: whatever the Compiler answers (an error is
  // fine), it must not follow what the register allocator attached to that label while it worked on the earlier function.
  if (s.target != gen::Target::kA64) {
    sim::begin_op(Op(), n + 1);
    apply_knobs(k2, plan.seed + 99);
    Objects o(0);
    SIM_CHECK(o.code->init(env_of(s)) == Error::kOk, "c16:setup", "init failed");
    x86::Compiler& cc = o.xc;
    cc.set_error_handler(&o.eh);
    SIM_CHECK(o.code->attach(&cc) == Error::kOk, "c16:setup", "attach failed");
    Label shared = cc.new_label();
    uint32_t filler = uint32_t(3 + (uint64_t(op.a[1]) % 150));
    { x86::Gp a = cc.new_gp32("a"); FuncNode* f = cc.add_func(FuncSignature::build<int, int>()); if (f) { f->set_arg(0, a); (void)cc.test(a, a); (void)cc.jz(shared); (void)cc.add(a, 1); (void)cc.bind(shared); (void)cc.ret(a); (void)cc.end_func(); } }
    { x86::Gp b = cc.new_gp32("b"), c = cc.new_gp32("c"); FuncNode* f = cc.add_func(FuncSignature::build<int, int, int>()); if (f) { f->set_arg(0, b); f->set_arg(1, c); for (uint32_t i = 0; i < filler; i++) { (void)cc.add(b, c); (void)cc.xor_(c, b); } (void)cc.test(b, b); (void)cc.jz(shared); (void)cc.ret(b); (void)cc.end_func(); } }
    Error err = cc.finalize();
    sim::logf("branch into an earlier function: finalize -> %u", unsigned(err));
    sim::count(err == Error::kOk ? "c16.probe.cross_function_branch_accepted" : "c16.probe.cross_function_branch_refused");
    sim::end_op();
  }
  sim::mark_nontrivial();
  sim::add_steps(n + 1);
  sim::heap::arm(false);
  SIM_CHECK(sim::heap::live_blocks_this_run() == 0, "c16:leak", "%zu heap block(s) left:%s", sim::heap::live_blocks_this_run(), sim::heap::describe_live_blocks_this_run().c_str());
}

Plan generate_rounds_with(uint64_t seed, bool thorough, bool faults) {
  Plan p;
  Rng cfg = sim::stream(seed, "cfg");
  Rng r = sim::stream(seed, "plan");
  p.set("static", cfg.chance(1, 3) ? int64_t(256 + 64 * cfg.below(400)) : 0);
  p.set("holder_first", int64_t(cfg.below(2)));
  p.set("fault_class", faults ? 1 : 0);
  size_t rounds = size_t(2 + r.below(thorough ? 11 : 6));
  int target_bias = int(r.below(4));   // 3 = mixed targets
  for (size_t i = 0; i < rounds; i++) {
    Op op; op.kind = kRound;
    int target = target_bias == 3 ? int(r.below(3)) : target_bias;
    int ek = int(r.below(kEmitterKindCount));
    op.a[0] = target + 3 * ek;
    op.a[1] = int64_t(r.next() & 0x7fffffffffffll);
    op.a[2] = int64_t(r.chance(1, 5) ? 5 + r.below(200) : 5 + r.below(40));
    uint64_t f = r.below(64);                       // logger, validate, mode, extra, detach
    if (!r.chance(1, 3)) f &= ~uint64_t(12);        // most rounds complete
    f |= uint64_t(r.below(4)) << 8;                 // nfuncs
    f |= uint64_t(r.below(kRecycleCount)) << 12;    // recycle action
    if (r.chance(1, 4)) f |= uint64_t(1 + r.below(7)) << 16;   // one-shot state left pending when the round ends
    if (r.chance(1, 3)) f |= uint64_t(1) << 19;                // the finished program is relocated
    if (r.chance(1, 3)) f |= uint64_t(1) << 23;                // Builder: serialize_to() instead of finalize()
    if (r.chance(1, 3)) f |= uint64_t(1) << 22;                // Builder: a raw instruction node without operands
    if (r.chance(1, 2)) f |= uint64_t(1) << 21;                // the logger is attached to the holder
    if (r.chance(1, 2)) f |= uint64_t(1) << 20;                // Compiler: the register allocator annotates the code (visible in the log)
    if (r.chance(1, 3)) f |= uint64_t(1) << 24;                // the environment's platform is Windows (another calling convention behind the same ids)
    op.a[3] = int64_t(f);
    if (faults && r.chance(1, 3)) {
      op.faults.push_back(sim::Fault{sim::kFaultArena, uint32_t(r.below(r.chance(1, 2) ? 40 : 400)), 0});
      if (r.chance(1, 3)) op.faults.push_back(sim::Fault{uint8_t(r.chance(1, 2) ? sim::kFaultMalloc : sim::kFaultRealloc), uint32_t(r.below(6)), 0});
    }
    p.ops.push_back(op);
  }
  return p;
}

Plan generate_rounds(uint64_t seed, bool thorough) { return generate_rounds_with(seed, thorough, false); }
Plan generate_rounds_faults(uint64_t seed, bool thorough) { return generate_rounds_with(seed ^ 0x77, thorough, true); }

Plan generate_funcs(uint64_t seed, bool) {
  Plan p;
  Rng r = sim::stream(seed, "plan");
  Op op; op.kind = kFuncs;
  op.a[0] = int64_t(r.below(3)) + 3 * kCompilerVirt;
  op.a[1] = int64_t(r.next() & 0x7fffffffffffll);
  op.a[3] = int64_t(r.below(4) | (r.below(8) << 8));
  p.ops.push_back(op);
  return p;
}

void shrink(const Plan& p, std::vector<Plan>& out) {
  if (p.get("static")) { Plan q = p; q.set("static", 0); out.push_back(q); }
  for (size_t i = 0; i < p.ops.size(); i++) {
    if ((p.ops[i].a[2] & 0xfff) > 5) { Plan q = p; q.ops[i].a[2] = (p.ops[i].a[2] & 0xfff) / 2; out.push_back(q); }
    uint64_t f = uint64_t(p.ops[i].a[3]);
    for (uint64_t bit : {1ull, 2ull, 16ull, 32ull}) if (f & bit) { Plan q = p; q.ops[i].a[3] = int64_t(f & ~bit); out.push_back(q); }
    if (f & 12) { Plan q = p; q.ops[i].a[3] = int64_t(f & ~12ull); out.push_back(q); }
  }
}

// ---- error handler / logger inherited from the holder -----------------------------------------------------------------
// An emitter without a handler of its own reports through the handler of the holder it is attached to. After the
// holder was recycled (or the emitter moved to another holder) with ANOTHER handler, errors must reach that one -
// nothing of the earlier attachment may be referenced any more (the old handler may be gone).
void execute_handlers(const Plan& plan) {
  gen::Target target = gen::Target(plan.get("target", 1));
  int kind = int(plan.get("emitter", 0));       // 0 assembler, 1 builder, 2 compiler
  int how = int(plan.get("recycle", 0));        // 0 reset+init (same holder), 1 reinit (same holder), 2 detach + attach to another holder
  apply_knobs(knobs_from(*std::unique_ptr<Rng>(new Rng(sim::stream(plan.seed, "knobs")))), plan.seed);
  sim::begin_op(Op(), 0);
  {
    std::unique_ptr<gen::RecordingHandler> ha(new gen::RecordingHandler()), hb(new gen::RecordingHandler());
    Objects o(0);
    CodeHolder other;
    Environment env(gen::arch_of(target));
    SIM_CHECK(o.code->init(env) == Error::kOk, "c16:setup", "init failed");
    o.code->set_error_handler(ha.get());
    BaseEmitter& e = o.emitter(target, kind == 0 ? kAsm : kind == 1 ? kBuilder : kCompilerPhys);
    e.reset_error_handler();
    SIM_CHECK(o.code->attach(&e) == Error::kOk, "c16:setup", "attach failed");
    // first use: a program (compiler: a function through finalize(), which runs the passes)
    RoundSpec s = decode(plan.ops.empty() ? Op() : plan.ops[0]);
    s.target = target; s.emitter_kind = kind == 0 ? kAsm : kind == 1 ? kBuilder : kCompilerVirt; s.mode = 0; s.logger = false; s.nfuncs = 1;
    std::vector<uint32_t> errs;
    (void)generate(s, *o.code, e, *ha, errs, false);
    uint64_t junk[2] = {1, 2};
    (void)e.embed_data_array(TypeId(250), junk, 2, 1);   // an error (invalid type id) while the first handler is in place
    SIM_CHECK(ha->count >= 1, "c16:setup", "the inherited handler was not invoked in the first place");
    // recycle with another handler
    CodeHolder* now = o.code.get();
    if (how == 0) { o.code->reset(plan.get("hard", 0) ? ResetPolicy::kHard : ResetPolicy::kSoft); SIM_CHECK(o.code->init(env) == Error::kOk, "c16:setup", "init failed"); o.code->set_error_handler(hb.get()); SIM_CHECK(o.code->attach(&e) == Error::kOk, "c16:setup", "attach failed"); }
    else if (how == 1) { SIM_CHECK(o.code->reinit() == Error::kOk, "c16:setup", "reinit failed"); o.code->set_error_handler(hb.get()); }
    else if (how == 2) { SIM_CHECK(o.code->detach(&e) == Error::kOk, "c16:setup", "detach failed"); SIM_CHECK(other.init(env) == Error::kOk, "c16:setup", "init failed"); other.set_error_handler(hb.get()); SIM_CHECK(other.attach(&e) == Error::kOk, "c16:setup", "attach failed"); now = &other; }
    else if (how == 3) {
      // reset() + init() and NO new handler: the holder - and with it every emitter that inherits from it - has none
      o.code->reset(plan.get("hard", 0) ? ResetPolicy::kHard : ResetPolicy::kSoft); SIM_CHECK(o.code->init(env) == Error::kOk, "c16:setup", "init failed"); SIM_CHECK(o.code->attach(&e) == Error::kOk, "c16:setup", "attach failed");
      ha.reset();
      SIM_CHECK(o.code->error_handler() == nullptr && e.error_handler() == nullptr, "c16:residue-error-handler", "after reset() + init() the holder still has error handler %p and the emitter reports to %p (both belong to the holder's previous life)", (void*)o.code->error_handler(), (void*)e.error_handler());
      (void)e.embed_data_array(TypeId(250), junk, 2, 1);
      if (kind != 0 && e.is_initialized()) { (void)o.code->detach(&e); }
      sim::count("c16.probe.reset_without_new_handler");
    }
    if (how != 3) {
    // the first handler goes away (poisoned by the sanitizer): whoever still references it is caught
    ha.reset();
    SIM_CHECK(e.error_handler() == hb.get(), "c16:residue-error-handler", "after recycling (%d) the emitter reports to %p, the holder's handler is %p", how, (void*)e.error_handler(), (void*)hb.get());
    (void)e.embed_data_array(TypeId(250), junk, 2, 1);
    SIM_CHECK(hb->count >= 1, "c16:residue-error-handler", "an error after recycling (%d) did not reach the handler of the holder the emitter is attached to", how);
    (void)now;
    if (kind != 0 && e.is_initialized()) { (void)now->detach(&e); }
    }
  }
  sim::end_op();
  sim::mark_nontrivial();
  sim::add_steps(3);
  sim::heap::arm(false);
  SIM_CHECK(sim::heap::live_blocks_this_run() == 0, "c16:leak", "%zu heap block(s) left:%s", sim::heap::live_blocks_this_run(), sim::heap::describe_live_blocks_this_run().c_str());
}

Plan generate_handlers(uint64_t seed, bool) {
  Plan p;
  Rng cfg = sim::stream(seed, "cfg");
  p.set("target", int64_t(cfg.below(3)));
  p.set("emitter", int64_t(cfg.below(3)));
  p.set("recycle", int64_t(cfg.below(4)));
  p.set("hard", int64_t(cfg.below(2)));
  Op op; op.kind = kRound; op.a[0] = 0; op.a[1] = int64_t(cfg.next() & 0x7fffffffffffll); op.a[2] = int64_t(5 + cfg.below(30)); op.a[3] = 0;
  p.ops.push_back(op);
  return p;
}

const sim::Scenario kHandlers = {"C16", "inherited-handler", "asan", 6000, 60000, generate_handlers, execute_handlers, op_name, nullptr, nullptr};
sim::Registrar r4(kHandlers);

const sim::Scenario kRounds = {"C16", "rounds", "asan", 60000, 1200000, generate_rounds, execute_rounds, op_name, shrink, nullptr};
const sim::Scenario kRoundsFaults = {"C16", "rounds-faults", "asan", 30000, 600000, generate_rounds_faults, execute_rounds, op_name, shrink, nullptr};
const sim::Scenario kFuncsS = {"C16", "compiler-functions", "asan", 15000, 300000, generate_funcs, execute_funcs, op_name, nullptr, nullptr};
sim::Registrar r1(kRounds), r2(kRoundsFaults), r3(kFuncsS);

const char* const kAssumptions[] = {
  "A round is only compared with fresh objects when its program ran to completion on a holder that was reset()+init()ed or reinit()ed immediately before; generation on top of earlier output legitimately accumulates.",
  "In the many-functions scenario entry alignment padding, global-scope constant pools and absolute call targets (address table slots) legitimately depend on what precedes and are excluded.",
  "Programs come from a curated palette of valid forms; whether the bytes are the right encoding is C01/C02, not this property.",
  nullptr};
const char* const kReal[] = {"asmjit CodeHolder, x86/a64 Assembler, Builder, Compiler (RA passes, prolog/epilog insertion, serialisation), StringLogger, Arena (built from /repo)", nullptr};
const char* const kStub[] = {"SimHeap layout (junk fill, address shifts, realloc policy), H3 arena block size, H4 code buffer capacity, H1 arena faults (rounds-faults only)", nullptr};
const sim::PropInfo kInfo = {"C16", "exploration",
  "Each run is one seed: one long-lived set of objects (holder with dynamic or static arena; Assembler, Builder and Compiler for x86-32, x86-64 and AArch64; logger; error handler) goes through 2..12 rounds, each = recycle action (reset soft / reset hard + init, possibly to another architecture; reinit) + emitter choice + logger/validation setting + a generated program of 5..200 calls (complete, abandoned half-way, interleaved with failing calls, or - in the fault scenario - cut short by an injected arena/heap failure) or 1..4 Compiler functions with virtual registers. "
  "Every completed round is regenerated on brand-new objects under different heap junk/address shifts/realloc policy, arena block size, code buffer capacity, logger and validation settings; sections, labels, relocations, unresolved count, every returned error code and (when both log) the logger text must be identical; pristine probes follow each reset/reinit. Scenario 'compiler-functions' compiles 2..6 functions through one Compiler and compares each function's bytes with the same function compiled alone. Non-trivial = at least one round was compared; distinct = distinct event-log hashes.",
  kAssumptions, kReal, kStub};
sim::PropInfoRegistrar reginfo(kInfo);

} // namespace
