// C14 - Invalid input is rejected with an error and leaves emitter state untouched.
//
// A failed call is an event in a history: the error handler is a user callback that may return, record or THROW (which
// cancels the call at the report site), and afterwards the emitter must behave like a fresh one that was given only
// the calls that succeeded.
#include "sim/sim.h"
#include "gen/a64forms.h"
#include "gen/prog.h"

#include <asmjit/core.h>
#include <asmjit/x86.h>
#include <asmjit/a64.h>

#include <stdlib.h>
#include <string.h>
#include <memory>
#include <string>
#include <vector>

using namespace asmjit;
using sim::Op;
using sim::Plan;
using sim::Rng;

namespace {

enum OpKind : uint16_t { kValidStep, kCall, kBadBind, kBadAlign, kBadEmbedLabel, kBadEmbedDelta, kBadSection, kBadNamedLabel, kBadEmbedArray, kA64Form, kX86ShortJump, kX86Locked, kX86ZMask, kTooManyOperands, kDetachedEmit, kX86AbsAddr, kX86BadRegId, kX86FarJcc, kBadSetOffset, kOpCount };
const char* const kOpNames[kOpCount] = {"valid_step", "call", "bad_bind", "bad_align", "bad_embed_label", "bad_embed_label_delta", "bad_section", "bad_named_label", "bad_embed_array", "a64_form", "x86_short_jump", "x86_locked", "x86_zmask", "too_many_operands", "detached_emit", "x86_abs_addr", "x86_bad_reg_id", "x86_far_jcc", "bad_set_offset"};
const char* op_name(uint16_t k) { return k < kOpCount ? kOpNames[k] : "?"; }

enum HandlerMode { kHandlerNone = 0, kHandlerRecording, kHandlerThrowing, kHandlerModeCount };

// ---- operand specs carried in Op::s as "k,a,b,c,d;" items ---------------------------------------------------------

struct OperandText { int kind; int64_t v[4]; };   // kind: 0 reg, 1 mem, 2 imm, 3 label

std::vector<OperandText> parse_operands(const std::string& s) {
  std::vector<OperandText> out;
  const char* p = s.c_str();
  while (*p) {
    OperandText o{}; char* e;
    o.kind = int(strtoll(p, &e, 10)); p = e;
    for (int i = 0; i < 4 && *p == ','; i++) { p++; o.v[i] = strtoll(p, &e, 10); p = e; }
    while (*p && *p != ';') p++;
    if (*p == ';') p++;
    out.push_back(o);
  }
  return out;
}

std::string operand_text(int kind, int64_t a, int64_t b = 0, int64_t c = 0, int64_t d = 0) {
  char buf[128]; snprintf(buf, sizeof buf, "%d,%lld,%lld,%lld,%lld;", kind, (long long)a, (long long)b, (long long)c, (long long)d);
  return buf;
}

struct Labels { std::vector<Label> made; uint32_t count_hint = 0; };

// label selector: 0..N-1 -> created label (valid), negative -> ids beyond the label count / kInvalidId
Label select_label(const Labels& ls, int64_t sel, const CodeHolder& code) {
  if (sel >= 0 && !ls.made.empty()) return ls.made[size_t(sel) % ls.made.size()];
  switch ((-sel) % 4) {
    case 0: return Label(uint32_t(code.label_count()));            // first invalid id
    case 1: return Label(uint32_t(code.label_count() + 1000));
    case 2: return Label(0x7fffffffu);
    default: return Label();                                       // kInvalidId
  }
}

static std::vector<uint32_t>* g_invalid_ids = nullptr;
static Label note_label(const Label& l, const CodeHolder& code) { if (g_invalid_ids && !code.is_label_valid(l)) g_invalid_ids->push_back(l.id()); return l; }

Operand build_operand(gen::Target t, const OperandText& o, const Labels& ls, const CodeHolder& code, bool* references_invalid_label) {
  switch (o.kind) {
    case 0: return Reg::from_type_and_id(RegType(uint32_t(o.v[0]) % 32u), uint32_t(o.v[1]));
    case 2: return Imm(o.v[0]);
    case 3: { Label l = note_label(select_label(ls, o.v[0], code), code); if (!code.is_label_valid(l)) *references_invalid_label = true; return l; }
    default: {
      if (t == gen::Target::kA64) {
        a64::Mem m;
        uint64_t pk = uint64_t(o.v[2]);
        if (o.v[0] == 1) { Label l = note_label(select_label(ls, o.v[1], code), code); if (!code.is_label_valid(l)) *references_invalid_label = true; m = a64::ptr(l, int32_t(o.v[3])); }
        else { m = a64::ptr(a64::x(uint32_t(o.v[1]) & 0xffu), int32_t(o.v[3])); if (o.v[0] >= 2) m.set_base(Reg::from_type_and_id(RegType(uint32_t(o.v[0]) % 32u), uint32_t(o.v[1]))); }
        if (pk & 1) m.set_index(Reg::from_type_and_id(RegType(uint32_t(pk >> 1) % 32u), uint32_t(pk >> 6) & 0xffu));
        if (pk & (1u << 14)) m.set_shift(uint32_t(pk >> 15) & 0x3f);
        if (pk & (1u << 21)) { if (pk & (1u << 22)) m.make_pre_index(); else m.make_post_index(); }
        return m;
      }
      x86::Mem m;
      uint64_t pk = uint64_t(o.v[2]);
      if (o.v[0] == 1) { Label l = note_label(select_label(ls, o.v[1], code), code); if (!code.is_label_valid(l)) *references_invalid_label = true; m = x86::ptr(l, int32_t(o.v[3])); }
      else if (o.v[0] == 0) m = x86::ptr(uint64_t(o.v[3]));
      else { m = x86::ptr(x86::rax, int32_t(o.v[3])); m.set_base(Reg::from_type_and_id(RegType(uint32_t(o.v[0]) % 32u), uint32_t(o.v[1]))); }
      if (pk & 1) m.set_index(Reg::from_type_and_id(RegType(uint32_t(pk >> 1) % 32u), uint32_t(pk >> 6) & 0xffu), uint32_t(pk >> 14) & 3u);
      if (pk & (1u << 16)) m.set_segment(uint32_t(pk >> 17) & 7u);
      m.set_size(uint32_t(pk >> 20) & 0xffu);
      if (pk & (1u << 28)) m.set_broadcast(x86::Mem::Broadcast(uint32_t(pk >> 29) & 7u));
      if (pk & (1ull << 32)) { if (pk & (1ull << 33)) m.set_addr_abs(); else m.set_addr_rel(); }
      return m;
    }
  }
}

// ---- AArch64: a harvested database form with its operand kinds kept and everything else perturbed -------------------------
// Op: a[0] form index, a[1] perturbation seed, a[2] mask of operands that are perturbed, a[3] one-shot state bits.
// The kind of every operand (register of the same type, memory, immediate, label) stays what the form has; ids, element
// types and indices, base/index ids, offsets, shifts, extends, offset modes, immediates and label ids are re-drawn.
uint32_t perturbed_id(Rng& r) {
  static const uint32_t edge[] = {31, 32, 33, 63, 64, 127, 128, 254, 255, 256, 1000, 0xffffu, 0x7fffffffu, 0xffffffffu};
  return r.chance(2, 3) ? uint32_t(r.below(32)) : r.pick(edge);
}
int64_t perturbed_imm(Rng& r) {
  static const int64_t edge[] = {0, 1, -1, 7, 8, 15, 16, 31, 32, 63, 64, 65, 127, 128, 255, 256, 4095, 4096, 4097, 0xffff, 0x10000, 0xffffff, 0x1000000, 0x7fffffff, 0x80000000ll, 0xffffffffll, 0x100000000ll,
                                 int64_t(0x7fffffffffffffffll), int64_t(0x8000000000000000ull), -4096, -4097, -256, -257, 0x00ff00ff00ff00ffll, 0x5555555555555555ll};
  // field limits times the scale factors instruction encodings use (offsets scaled by 1..16, shifts in steps of 16, ...)
  static const int64_t limit[] = {0, 1, 2, 3, 7, 8, 15, 16, 31, 32, 33, 63, 64, 65, 127, 128, 129, 255, 256, 257, 511, 512, 4095, 4096, 4097};
  switch (r.below(6)) {
    case 0: return int64_t(r.below(64));
    case 1: return r.pick(edge);
    case 2: return int64_t(r.next());
    case 3: case 4: { int64_t v = r.pick(limit) * (int64_t(1) << r.below(5)); return r.chance(1, 3) ? -v : v; }
    default: return int64_t(r.below(1 << 20)) - (1 << 19);
  }
}
void perturb_a64_operand(Operand_& op, Rng& r, const Labels& ls, const CodeHolder& code) {
  if (op.is_reg()) {
    Reg& reg = op.as<Reg>();
    if (r.chance(2, 3)) reg.set_id(perturbed_id(r));
    if (reg.is_vec()) {
      a64::Vec& v = op.as<a64::Vec>();
      if (r.chance(1, 3)) v.set_element_type(a64::VecElementType(r.below(8)));
      /* the 64-bit and the 128-bit view of an arrangement operand (.8b/.16b ... .1d/.2d) */
      if (!v.has_element_index() && (v.reg_type() == RegType::kVec64 || v.reg_type() == RegType::kVec128) && r.chance(1, 6)) { Reg flipped = Reg::from_type_and_id(v.reg_type() == RegType::kVec64 ? RegType::kVec128 : RegType::kVec64, v.id()); uint32_t et = uint32_t(v.element_type()); op = flipped; op.as<a64::Vec>().set_element_type(a64::VecElementType(et)); }
      // an element operand stays an element operand and an arrangement stays an arrangement (the operand kind is kept):
      // only the index of an operand that has one is re-drawn
      if (v.has_element_index() && r.chance(1, 2)) v.set_element_index(uint32_t(r.chance(3, 4) ? r.below(17) : r.below(64)));
    }
  }
  else if (op.is_mem()) {
    a64::Mem& m = op.as<a64::Mem>();
    if (m.has_base_label() && r.chance(1, 6)) { op = a64::ptr(uint64_t(r.chance(1, 2) ? r.below(64) : r.next())); return; }   // an absolute address instead of a label
    if (m.has_base_label()) { Label l = select_label(ls, r.chance(1, 2) ? int64_t(r.below(8)) : -int64_t(1 + r.below(8)), code); m.set_base_id(l.id()); }
    else if (m.has_base_reg() && r.chance(1, 2)) m.set_base_id(perturbed_id(r));
    if (m.has_index() && r.chance(1, 2)) m.set_index_id(perturbed_id(r));
    if (m.has_index() && r.chance(1, 5)) m.set_index_type(m.index_type() == RegType::kGp32 ? RegType::kGp64 : RegType::kGp32);   /* W <-> X index */
    if (r.chance(1, 2)) { int64_t o = perturbed_imm(r); m.set_offset(r.chance(1, 2) ? int64_t(int32_t(o)) : o); }
    if (r.chance(1, 4)) m.set_shift(uint32_t(r.below(r.chance(1, 2) ? 5 : 64)));
    if (r.chance(1, 6)) m.set_shift_op(a64::ShiftOp(r.below(16)));
    if (r.chance(1, 5)) { switch (r.below(3)) { case 0: m.make_pre_index(); break; case 1: m.make_post_index(); break; default: m.reset_offset_mode(); break; } }
  }
  else if (op.is_imm()) {
    Imm& i = op.as<Imm>();
    if (r.chance(1, 2)) i.set_value(perturbed_imm(r));
    if (r.chance(1, 3)) i.set_predicate(uint32_t(r.chance(2, 3) ? r.below(4) : r.below(16)));   /* mostly another shift type (lsl lsr asr ror) */
  }
  else if (op.is_label()) {
    op = select_label(ls, r.chance(1, 2) ? int64_t(r.below(8)) : -int64_t(1 + r.below(8)), code);
  }
}

// An independent (and deliberately small) statement of AArch64 operand constraints, written from the architecture manual
// and not from the assembler: a call for which this returns true cannot denote any instruction, so the emitter must
// report an error. It only covers constraints that leave no room for a convenience re-interpretation by the assembler.
bool a64_known_invalid(uint32_t inst_id, const Operand_* o, const Operand_* form_ops, uint32_t n, const char** why) {
  namespace I = a64::Inst;
  uint32_t id = uint32_t(BaseInst::extract_real_id(inst_id));
  auto gp_bits = [&](uint32_t k) -> uint32_t { if (k >= n || !o[k].is_reg()) return 0; RegType t = o[k].as<Reg>().reg_type(); return t == RegType::kGp32 ? 32u : t == RegType::kGp64 ? 64u : 0u; };
  auto is_imm = [&](uint32_t k) { return k < n && o[k].is_imm(); };
  auto imm = [&](uint32_t k) { return o[k].as<Imm>().value(); };
  auto pred = [&](uint32_t k) { return o[k].as<Imm>().predicate(); };
  auto same_gp = [&](uint32_t count) -> uint32_t { uint32_t b = gp_bits(0); for (uint32_t k = 1; k < count; k++) if (gp_bits(k) != b) return 0; return b; };
  // register ids: general purpose 0..30, 31 (sp) and 63 (zr); vectors 0..31; memory base 0..31; index 0..30 and 63
  for (uint32_t k = 0; k < n; k++) {
    if (o[k].is_reg()) {
      const Reg& r = o[k].as<Reg>(); uint32_t rid = r.id();
      if ((r.is_gp() && rid > 31 && rid != 63) || (r.is_vec() && rid > 31)) { *why = "register id out of range"; return true; }
      if (r.is_vec() && o[k].as<a64::Vec>().has_element_index()) {
        // The element size an instruction works with is taken from one of its vector operands (which one depends on the
        // instruction): an index that does not exist even for the smallest element size any operand of the call - or of
        // the form it was derived from - names cannot be right.
        uint32_t idx = o[k].as<a64::Vec>().element_index(), min_et = 8;
        for (uint32_t j = 0; j < n; j++) for (const Operand_* set : {o, form_ops}) if (set[j].is_reg() && set[j].as<Reg>().is_vec()) { uint32_t e = uint32_t(set[j].as<a64::Vec>().element_type()); if (e >= 1 && e <= 4 && e < min_et) min_et = e; else if (e == 0 || e > 4) min_et = 1; }
        if (min_et <= 4 && idx >= (16u >> (min_et - 1))) { *why = "vector element index beyond the 128-bit register"; return true; }
      }
    }
    else if (o[k].is_mem()) {
      const a64::Mem& m = o[k].as<a64::Mem>();
      if (!m.has_base_reg() && !m.has_base_label()) { *why = "memory operand without base: AArch64 has no absolute addressing"; return true; }
      if (m.has_base_reg() && m.base_id() > 31) { *why = "memory base register id out of range"; return true; }
      if (m.has_index() && m.index_id() > 31 && m.index_id() != 63) { *why = "memory index register id out of range"; return true; }
    }
  }
  switch (id) {
    case I::kIdAdd: case I::kIdAdds: case I::kIdSub: case I::kIdSubs: case I::kIdAnd: case I::kIdAnds: case I::kIdBic: case I::kIdBics: case I::kIdEon: case I::kIdEor: case I::kIdOrr: case I::kIdOrn:
      if (n == 4 && is_imm(3) && pred(3) <= 3) {
        uint32_t b = same_gp(3);
        if (b && (imm(3) < 0 || imm(3) >= int64_t(b))) { *why = "shift amount of a shifted-register operand not below the register size"; return true; }
        if (b && pred(3) == 3 && (id == I::kIdAdd || id == I::kIdAdds || id == I::kIdSub || id == I::kIdSubs)) { *why = "ror is not a shift of add/sub"; return true; }
      }
      break;
    case I::kIdCmp: case I::kIdCmn: case I::kIdTst: case I::kIdNeg: case I::kIdNegs: case I::kIdMvn:
      if (n == 3 && is_imm(2) && pred(2) <= 3) { uint32_t b = same_gp(2); if (b && (imm(2) < 0 || imm(2) >= int64_t(b))) { *why = "shift amount not below the register size"; return true; } }
      // cmp/cmn/neg/negs are aliases of subs/adds/sub: their shifted-register form has no ror (tst/mvn are logical and have it)
      if (n == 3 && is_imm(2) && pred(2) == 3 && same_gp(2) && id != I::kIdTst && id != I::kIdMvn) { *why = "ror is not a shift of add/sub (cmp/cmn/neg are aliases)"; return true; }
      break;
    case I::kIdBfc:
      if (n == 3 && is_imm(1) && is_imm(2)) { uint32_t b = gp_bits(0); if (b && (imm(1) < 0 || imm(1) >= int64_t(b) || imm(2) < 1 || imm(2) > int64_t(b) || imm(1) + imm(2) > int64_t(b))) { *why = "bit field outside the register"; return true; } }
      break;
    case I::kIdTbz: case I::kIdTbnz:
      if (n == 3 && is_imm(1)) { uint32_t b = gp_bits(0); if (b && (imm(1) < 0 || imm(1) >= int64_t(b))) { *why = "tested bit does not exist in the register"; return true; } }
      break;
    case I::kIdLsl: case I::kIdLsr: case I::kIdAsr: case I::kIdRor:
      if (n == 3 && is_imm(2)) { uint32_t b = same_gp(2); if (b && (imm(2) < 0 || imm(2) >= int64_t(b))) { *why = "shift amount not below the register size"; return true; } }
      break;
    case I::kIdUbfx: case I::kIdSbfx: case I::kIdBfxil: case I::kIdBfi: case I::kIdUbfiz: case I::kIdSbfiz:
      if (n == 4 && is_imm(2) && is_imm(3)) { uint32_t b = same_gp(2); if (b && (imm(2) < 0 || imm(2) >= int64_t(b) || imm(3) < 1 || imm(3) > int64_t(b) || imm(2) + imm(3) > int64_t(b))) { *why = "bit field outside the register"; return true; } }
      break;
    case I::kIdBfm: case I::kIdUbfm: case I::kIdSbfm:
      if (n == 4 && is_imm(2) && is_imm(3)) { uint32_t b = same_gp(2); if (b && (imm(2) < 0 || imm(2) >= int64_t(b) || imm(3) < 0 || imm(3) >= int64_t(b))) { *why = "immr/imms not below the register size"; return true; } }
      break;
    case I::kIdExtr:
      if (n == 4 && is_imm(3)) { uint32_t b = same_gp(3); if (b && (imm(3) < 0 || imm(3) >= int64_t(b))) { *why = "lsb not below the register size"; return true; } }
      break;
    case I::kIdCcmp: case I::kIdCcmn:
      if (n == 4 && is_imm(2) && (imm(2) < 0 || imm(2) > 15)) { *why = "nzcv beyond 4 bits"; return true; }
      if (n == 4 && is_imm(1) && (imm(1) < 0 || imm(1) > 31)) { *why = "5-bit immediate out of range"; return true; }
      if (n == 4 && is_imm(3) && (imm(3) < 0 || imm(3) > 15)) { *why = "condition code beyond 4 bits"; return true; }
      break;
    case I::kIdLd1_v: case I::kIdLd2_v: case I::kIdLd3_v: case I::kIdLd4_v: case I::kIdSt1_v: case I::kIdSt2_v: case I::kIdSt3_v: case I::kIdSt4_v:
    case I::kIdLd1r_v: case I::kIdLd2r_v: case I::kIdLd3r_v: case I::kIdLd4r_v: {
      // structure loads / stores: the post-index register is an X register; the 1D arrangement only exists for ld1/st1
      const Operand_& last = o[n - 1];
      if (n >= 2 && last.is_mem() && last.as<a64::Mem>().has_index() && last.as<a64::Mem>().index_type() == RegType::kGp32) { *why = "post-index register of a structure load/store must be an X register"; return true; }
      bool multi = id == I::kIdLd2_v || id == I::kIdLd3_v || id == I::kIdLd4_v || id == I::kIdSt2_v || id == I::kIdSt3_v || id == I::kIdSt4_v;
      if (multi && n >= 2 && o[0].is_reg() && o[0].as<Reg>().reg_type() == RegType::kVec64 && !o[0].as<a64::Vec>().has_element_index() && o[0].as<a64::Vec>().element_type() == a64::VecElementType::kD) { *why = "the .1d arrangement is reserved for ld2/ld3/ld4/st2/st3/st4"; return true; }
      break;
    }
    case I::kIdFcmla_v:
      // by element: the index selects a complex PAIR - 4h: 0..1, 8h: 0..3, 4s: 0..1
      if (n == 4 && o[0].is_reg() && o[2].is_reg() && o[2].as<Reg>().is_vec() && o[2].as<a64::Vec>().has_element_index()) {
        const a64::Vec& vd = o[0].as<a64::Vec>(); uint32_t idx = o[2].as<a64::Vec>().element_index();
        bool h = vd.element_type() == a64::VecElementType::kH, sgl = vd.element_type() == a64::VecElementType::kS;
        uint32_t max = h ? (vd.reg_type() == RegType::kVec64 ? 1u : 3u) : sgl ? 1u : 0u;
        if ((h || sgl) && idx > max) { *why = "fcmla (by element): index beyond the complex pairs of the arrangement"; return true; }
      }
      break;
    case I::kIdCsel: case I::kIdCsinc: case I::kIdCsinv: case I::kIdCsneg:
      if (n == 4 && is_imm(3) && (imm(3) < 0 || imm(3) > 15)) { *why = "condition code beyond 4 bits"; return true; }
      break;
    case I::kIdCinc: case I::kIdCinv: case I::kIdCneg:
      // aliases of csinc/csinv/csneg with the inverted condition: 14 conditions (asmjit numbers them 2..15; AL and NV have no inverse)
      if (n == 3 && is_imm(2) && (imm(2) < 2 || imm(2) > 15)) { *why = "condition code outside eq..le"; return true; }
      break;
    case I::kIdCset: case I::kIdCsetm:
      if (n == 2 && is_imm(1) && (imm(1) < 2 || imm(1) > 15)) { *why = "condition code outside eq..le"; return true; }
      break;
    case I::kIdLdp: case I::kIdStp: case I::kIdLdnp: case I::kIdStnp: case I::kIdLdpsw:
      // register pair: signed 7-bit offset scaled by the access size; the non-temporal forms have no write-back
      if (n == 3 && gp_bits(0) && gp_bits(0) == gp_bits(1) && o[2].is_mem()) {
        const a64::Mem& m = o[2].as<a64::Mem>();
        if (m.has_base_reg() && !m.has_index()) {
          int64_t scale = id == I::kIdLdpsw ? 4 : int64_t(gp_bits(0) / 8), off = m.offset();
          if (off % scale != 0 || off < -64 * scale || off > 63 * scale) { *why = "register-pair offset is not a multiple of the access size within the signed 7-bit range"; return true; }
          if ((id == I::kIdLdnp || id == I::kIdStnp) && m.is_pre_or_post() && off != 0 /* write-back by 0 is encoded as the plain form */) { *why = "non-temporal pair with write-back"; return true; }
        }
      }
      break;
    case I::kIdLdr: case I::kIdStr: case I::kIdLdrb: case I::kIdStrb: case I::kIdLdrh: case I::kIdStrh: case I::kIdLdrsb: case I::kIdLdrsh: case I::kIdLdrsw: case I::kIdLdur: case I::kIdStur:
      // single general-purpose register: unsigned 12-bit offset scaled by the access size, or signed 9-bit unscaled offset
      // (the only form with write-back and the only form of ldur/stur)
      if (n == 2 && gp_bits(0) && o[1].is_mem()) {
        const a64::Mem& m = o[1].as<a64::Mem>();
        if (m.has_base_reg() && !m.has_index()) {
          int64_t scale = (id == I::kIdLdr || id == I::kIdStr || id == I::kIdLdur || id == I::kIdStur) ? int64_t(gp_bits(0) / 8) : (id == I::kIdLdrb || id == I::kIdStrb || id == I::kIdLdrsb) ? 1 : id == I::kIdLdrsw ? 4 : 2;
          int64_t off = m.offset();
          bool unscaled = off >= -256 && off <= 255;
          bool scaled = off >= 0 && off % scale == 0 && off <= 4095 * scale;
          bool only_unscaled = m.is_pre_or_post() || id == I::kIdLdur || id == I::kIdStur;
          if (!(unscaled || (scaled && !only_unscaled))) { *why = "load/store offset fits neither the scaled unsigned 12-bit nor the signed 9-bit form"; return true; }
          if ((id == I::kIdLdur || id == I::kIdStur) && m.is_pre_or_post() && off != 0) { *why = "ldur/stur with write-back"; return true; }
        }
      }
      break;
    case I::kIdMovz: case I::kIdMovk: case I::kIdMovn:
      if (n >= 2 && gp_bits(0) && is_imm(1)) {
        if (imm(1) < 0 || imm(1) > 0xffff) { *why = "16-bit immediate out of range"; return true; }
        if (n == 3 && is_imm(2) && (pred(2) != 0 || imm(2) < 0 || imm(2) % 16 != 0 || imm(2) >= int64_t(gp_bits(0)))) { *why = "move-wide shift is not lsl #0/16/32/48 within the register"; return true; }
      }
      break;
    case I::kIdRshrn_v: case I::kIdShl_v: case I::kIdShrn_v: case I::kIdShrn2_v: case I::kIdSli_v: case I::kIdSqrshrn_v: case I::kIdSqrshrun_v: case I::kIdSqshl_v: case I::kIdSqshlu_v: case I::kIdSqshrn_v:
    case I::kIdSqshrun_v: case I::kIdSri_v: case I::kIdSrshr_v: case I::kIdSrsra_v: case I::kIdSshll_v: case I::kIdSshr_v: case I::kIdSsra_v: case I::kIdUqrshrn_v: case I::kIdUqshl_v: case I::kIdUqshrn_v:
    case I::kIdUrshr_v: case I::kIdUrsra_v: case I::kIdUshll_v: case I::kIdUshr_v: case I::kIdUsra_v:
      // SIMD shifts by immediate: the amount is at most the element size (64)
      if (n == 3 && is_imm(2) && (imm(2) < 0 || imm(2) > 64)) { *why = "SIMD shift amount beyond the largest element size"; return true; }
      break;
    case I::kIdSvc: case I::kIdHvc: case I::kIdSmc: case I::kIdBrk: case I::kIdHlt:
      if (n == 1 && is_imm(0) && (imm(0) < 0 || imm(0) > 0xffff)) { *why = "16-bit immediate out of range"; return true; }
      break;
    default: break;
  }
  return false;
}

// ---- state observation ------------------------------------------------------------------------------------------------

struct State {
  std::vector<size_t> section_sizes;
  uint64_t bytes_hash = 0;
  size_t labels = 0, relocs = 0, unresolved = 0, sections = 0;
  bool addrtab = false;
  size_t nodes = 0;
  size_t bound = 0;
  bool operator==(const State& o) const { return section_sizes == o.section_sizes && bytes_hash == o.bytes_hash && labels == o.labels && relocs == o.relocs && unresolved == o.unresolved && sections == o.sections && addrtab == o.addrtab && nodes == o.nodes && bound == o.bound; }
};

State capture(const CodeHolder& code, BaseEmitter& e) {
  State s;
  s.sections = code.section_count();
  uint64_t h = 0xcbf29ce484222325ull;
  for (Section* sec : code.sections()) { s.section_sizes.push_back(sec->buffer_size()); if (sec->buffer_size()) h = sim::hash_bytes(sec->data(), sec->buffer_size(), h); }
  s.bytes_hash = h;
  s.labels = code.label_count(); s.relocs = code.reloc_entries().size(); s.unresolved = code.unresolved_fixup_count(); s.addrtab = code.has_address_table_section();
  for (const LabelEntry& le : code.label_entries()) if (le.is_bound()) s.bound++;
  if (e.is_builder()) for (BaseNode* n = static_cast<BaseBuilder&>(e).first_node(); n; n = n->next()) s.nodes++;
  return s;
}

std::string describe(const State& a, const State& b) {
  char buf[512];
  snprintf(buf, sizeof buf, "sections %zu->%zu, labels %zu->%zu (bound %zu->%zu), relocations %zu->%zu, unresolved fixups %zu->%zu, nodes %zu->%zu, bytes %s, address table %d->%d", a.sections, b.sections, a.labels, b.labels, a.bound, b.bound,
           a.relocs, b.relocs, a.unresolved, b.unresolved, a.nodes, b.nodes, (a.section_sizes == b.section_sizes && a.bytes_hash == b.bytes_hash) ? "unchanged" : "CHANGED", int(a.addrtab), int(b.addrtab));
  return buf;
}

// ---- one emitter under test + the list of calls that succeeded ---------------------------------------------------------

struct Subject {
  gen::Target target;
  int emitter_kind;   // 0 assembler, 1 builder, 2 compiler
  CodeHolder code;
  std::unique_ptr<BaseEmitter> e;
  gen::RecordingHandler eh;
  Labels labels;
  gen::ApplyCtx ctx;
  CodeHolder foreign;   // for foreign-section arguments
  std::vector<uint32_t> last_invalid_label_ids;   // ids that were invalid when the last call referenced them
  bool last_must_fail_other = false;              // the last call had an invalid non-label argument

  uint64_t base = Globals::kNoBaseAddress;        // the base address given to CodeHolder::init(), if any

  Subject(gen::Target t, int kind, int handler_mode, uint64_t known_base = Globals::kNoBaseAddress, bool validate = true) : target(t), emitter_kind(kind), base(known_base) {
    SIM_CHECK(code.init(Environment(gen::arch_of(t)), known_base) == Error::kOk, "c14:setup", "init failed");
    (void)foreign.init(Environment(gen::arch_of(t)));
    if (t == gen::Target::kA64) e.reset(kind == 0 ? static_cast<BaseEmitter*>(new a64::Assembler()) : kind == 1 ? static_cast<BaseEmitter*>(new a64::Builder()) : static_cast<BaseEmitter*>(new a64::Compiler()));
    else e.reset(kind == 0 ? static_cast<BaseEmitter*>(new x86::Assembler()) : kind == 1 ? static_cast<BaseEmitter*>(new x86::Builder()) : static_cast<BaseEmitter*>(new x86::Compiler()));
    SIM_CHECK(code.attach(e.get()) == Error::kOk, "c14:setup", "attach failed");
    // (AArch64 has no operand validator; without the option the a64 Assembler takes its fast path)
    if (validate || t != gen::Target::kA64) e->add_diagnostic_options(DiagnosticOptions::kValidateAssembler | DiagnosticOptions::kValidateIntermediate);
    eh.throw_on_error = handler_mode == kHandlerThrowing;
    if (handler_mode != kHandlerNone) e->set_error_handler(&eh);
  }
};

struct CallResult { Error err; bool threw; uint32_t handler_calls; };

// Performs the call described by `op` on `s`. `must_fail_out` is set when the statement demands an error.
CallResult perform(Subject& s, const gen::Program& prog, const Op& op, bool* must_fail_out) {
  BaseEmitter& e = *s.e;
  s.eh.reset();
  CallResult r{Error::kOk, false, 0};
  bool invalid_label_ref = false;
  s.last_invalid_label_ids.clear();
  s.last_must_fail_other = false;
  g_invalid_ids = &s.last_invalid_label_ids;
  try {
    switch (op.kind) {
      case kValidStep: {
        size_t idx = size_t(op.a[0]);
        if (idx >= prog.steps.size()) break;
        // keep label bookkeeping in sync with the program's own label indexes
        size_t before = s.ctx.labels.size();
        r.err = gen::apply_step(e, s.code, prog, idx, s.ctx);
        if (s.ctx.labels.size() > before && s.ctx.labels.back().is_valid()) s.labels.made.push_back(s.ctx.labels.back());
        break;
      }
      case kCall: {
        std::vector<OperandText> specs = parse_operands(op.s);
        Operand ops[6]; size_t n = 0;
        for (auto& sp : specs) if (n < 6) ops[n++] = build_operand(s.target, sp, s.labels, s.code, &invalid_label_ref);
        e.set_inst_options(InstOptions(uint32_t(op.a[1])));
        if (op.a[2]) e.set_extra_reg(Reg::from_type_and_id(RegType(uint32_t(op.a[2] >> 16) % 32u), uint32_t(op.a[2]) & 0xffffu));
        if (op.a[3] & 1) e.set_inline_comment("one-shot comment");
        r.err = e.emit_op_array(InstId(uint32_t(op.a[0])), ops, n);
        break;
      }
      case kA64Form: {
        const std::vector<gen::A64Form>& forms = gen::a64_forms();
        if (forms.empty()) break;
        const gen::A64Form& f = forms[size_t(op.a[0]) % forms.size()];
        Operand_ ops[6];
        for (uint32_t k = 0; k < f.op_count; k++) {
          ops[k] = f.ops[k];
          if ((op.a[3] & 8) && ops[k].is_reg() && (ops[k].as<Reg>().reg_type() == RegType::kVec64 || ops[k].as<Reg>().reg_type() == RegType::kVec128) && !ops[k].as<a64::Vec>().has_element_index()) {
            a64::Vec v = ops[k].as<a64::Vec>(); Reg flipped = Reg::from_type_and_id(v.reg_type() == RegType::kVec64 ? RegType::kVec128 : RegType::kVec64, v.id());
            ops[k] = flipped; ops[k].as<a64::Vec>().set_element_type(v.element_type());
          }
          Rng pr(sim::mix64(uint64_t(op.a[1]) * 0x9E3779B97F4A7C15ull + k));
          if (ops[k].is_label() || (ops[k].is_mem() && ops[k].as<a64::Mem>().has_base_label())) {
            // the form's own label (id 0 of the harvesting holder) means nothing here: always re-select it
            Rng lr(sim::mix64(uint64_t(op.a[1]) + 77 * k));
            Label l = select_label(s.labels, int64_t(lr.below(8)), s.code);
            if (ops[k].is_label()) ops[k] = l; else ops[k].as<a64::Mem>().set_base_id(l.id());
          }
          if ((uint64_t(op.a[2]) >> k) & 1) perturb_a64_operand(ops[k], pr, s.labels, s.code);
          // a label the holder does not know, as operand or as memory base, must make the call fail
          uint32_t label_id = ops[k].is_label() ? ops[k].as<Label>().id() : (ops[k].is_mem() && ops[k].as<a64::Mem>().has_base_label()) ? ops[k].as<a64::Mem>().base_id() : 0u;
          if ((ops[k].is_label() || (ops[k].is_mem() && ops[k].as<a64::Mem>().has_base_label())) && !s.code.is_label_valid(label_id)) { invalid_label_ref = true; s.last_invalid_label_ids.push_back(label_id); }
        }
        if (op.a[3] & 2) e.set_inst_options(InstOptions(uint32_t(sim::mix64(uint64_t(op.a[1]) ^ 0x51) & 0xffffffffu) & ~uint32_t(InstOptions::kReserved)));
        if (op.a[3] & 4) e.set_extra_reg(Reg::from_type_and_id(RegType(uint32_t(op.a[1] >> 8) % 32u), uint32_t(op.a[1]) & 0xffu));
        if (op.a[3] & 1) e.set_inline_comment("one-shot comment");
        {
          String sb;
          for (uint32_t k = 0; k < f.op_count; k++) { if (k) sb.append(", "); const Operand_& o = ops[k];
            if (o.is_reg()) sb.append_format("reg(t%u,id%u,sig%#x)", unsigned(o.as<Reg>().reg_type()), o.as<Reg>().id(), o.signature().bits());
            else if (o.is_mem()) sb.append_format("mem(sig%#x,base%u,index%u,off%lld)", o.signature().bits(), o.as<a64::Mem>().base_id(), o.as<a64::Mem>().index_id(), (long long)o.as<a64::Mem>().offset());
            else if (o.is_imm()) sb.append_format("imm(%lld,pred%u)", (long long)o.as<Imm>().value(), o.as<Imm>().predicate());
            else if (o.is_label()) sb.append_format("label(%u)", o.as<Label>().id()); else sb.append("none"); }
          sim::logf("a64 form #%zu '%s' -> %s", size_t(op.a[0]) % forms.size(), f.text.c_str(), sb.data());
        }
        uint32_t form_inst_id = f.inst_id;
        if ((op.a[3] & 16) && BaseInst::extract_arm_cond_code(f.inst_id) == arm::CondCode::kAL) {
          // a condition code composed into the id of an instruction other than `b`
          form_inst_id = BaseInst::compose_arm_inst_id(f.inst_id, arm::CondCode(2 + uint32_t(uint64_t(op.a[1]) % 14)));
          if (BaseInst::extract_real_id(f.inst_id) != a64::Inst::kIdB) { *must_fail_out = true; s.last_must_fail_other = true; sim::count("c14.probe.a64_condition_code_on_non_branch"); }
        }
        { const char* why = nullptr; if (a64_known_invalid(f.inst_id, ops, f.ops, f.op_count, &why)) { *must_fail_out = true; s.last_must_fail_other = true; sim::logf("  must fail: %s", why); sim::count("c14.probe.a64_constraint_violated"); } }
        r.err = e.emit_op_array(InstId(form_inst_id), reinterpret_cast<const Operand*>(ops), f.op_count);
        if (getenv("SIM_C14_A64_STATS") && *must_fail_out && !invalid_label_ref) {
          if (r.err == Error::kOk && s.emitter_kind == 0) {
            const char* why = nullptr; a64_known_invalid(f.inst_id, ops, f.ops, f.op_count, &why);
            String nm; InstAPI::inst_id_to_string(Arch::kAArch64, f.inst_id, InstStringifyOptions::kNone, nm);
            String sig; for (uint32_t k = 0; k < f.op_count; k++) { const Operand_& o = ops[k]; if (o.is_reg()) sig.append_format("R%u:%u,", unsigned(o.as<Reg>().reg_type()), o.as<Reg>().id() > 31 && o.as<Reg>().id() != 63 ? 999u : o.as<Reg>().id() == 63 ? 63u : o.as<Reg>().id() == 31 ? 31u : 0u); else if (o.is_mem()) sig.append_format("M%u:%u:%d%d,", o.as<a64::Mem>().base_id() > 31 ? 999u : 0u, o.as<a64::Mem>().has_index() ? 1u : 0u, int(o.as<a64::Mem>().is_pre_index()), int(o.as<a64::Mem>().is_post_index())); else if (o.is_imm()) sig.append("I,"); else sig.append("L,"); }
            char b[160]; snprintf(b, sizeof b, "c14.stat.accepted|%s|%s(%s)", why, nm.data(), sig.data()); for (char* q = b; *q; q++) if (*q == ' ') *q = '_'; sim::count(b);
          }
          *must_fail_out = false; s.last_must_fail_other = false;
        }
        break;
      }
      case kBadBind: {
        Label l = note_label(select_label(s.labels, op.a[0], s.code), s.code);
        if (!s.code.is_label_valid(l) || s.code.is_label_bound(l)) *must_fail_out = true;
        if (s.code.is_label_valid(l) && s.code.is_label_bound(l)) s.last_must_fail_other = true;
        // An Assembler's bind() consumes the pending inline comment (it is logged with the label): a refused bind() must
        // not leave it for the next instruction - the string only has to live for one call. (A Builder's bind() adds a
        // label node, which never takes the comment.)
        if (e.is_assembler() && (op.a[1] & 1)) { e.set_inline_comment("one-shot comment"); sim::count("c14.probe.bind_with_pending_comment"); }
        r.err = e.bind(l);
        break;
      }
      case kBadAlign: { static const uint32_t bad[] = {3, 5, 6, 7, 9, 12, 100, 1000, 0x80000001u, 65537}; *must_fail_out = true; s.last_must_fail_other = true; r.err = e.align(AlignMode(op.a[1] % 3), bad[size_t(op.a[0]) % 10]); break; }
      case kBadEmbedLabel: {
        Label l = note_label(select_label(s.labels, op.a[0], s.code), s.code);
        static const size_t sizes[] = {3, 5, 6, 7, 9, 16, 255, 0, 4, 8, 1, 2};
        size_t sz = sizes[size_t(op.a[1]) % 12];
        if (!s.code.is_label_valid(l) || (sz != 0 && sz != 1 && sz != 2 && sz != 4 && sz != 8)) *must_fail_out = true;
        if (sz != 0 && sz != 1 && sz != 2 && sz != 4 && sz != 8) s.last_must_fail_other = true;
        r.err = e.embed_label(l, sz);
        break;
      }
      case kBadEmbedDelta: {
        Label a = note_label(select_label(s.labels, op.a[0], s.code), s.code), b = note_label(select_label(s.labels, op.a[1], s.code), s.code);
        static const size_t sizes[] = {3, 5, 6, 7, 9, 16, 255, 0, 4, 8, 1, 2};
        size_t sz = sizes[size_t(op.a[2]) % 12];
        if (!s.code.is_label_valid(a) || !s.code.is_label_valid(b) || (sz != 0 && sz != 1 && sz != 2 && sz != 4 && sz != 8)) *must_fail_out = true;
        if (sz != 0 && sz != 1 && sz != 2 && sz != 4 && sz != 8) s.last_must_fail_other = true;
        // a distance that is known now (both labels bound in one section) and fits the field neither as signed nor as
        // unsigned value cannot be stored: silently truncated data is not "a correct instruction"
        if (s.emitter_kind == 0 && (sz == 1 || sz == 2 || sz == 4) && s.code.is_label_valid(a) && s.code.is_label_valid(b) && s.code.is_label_bound(a) && s.code.is_label_bound(b) &&
            s.code.label_entry_of(a).section_id() == s.code.label_entry_of(b).section_id()) {
          int64_t d = int64_t(s.code.label_entry_of(a).offset()) - int64_t(s.code.label_entry_of(b).offset()), lim = int64_t(1) << (8 * sz);
          if (d < -(lim >> 1) || d >= lim) { *must_fail_out = true; s.last_must_fail_other = true; sim::count("c14.probe.label_delta_does_not_fit"); }
        }
        r.err = e.embed_label_delta(a, b, sz);
        break;
      }
      case kBadSection: {
        // The Assembler rejects a Section object of another holder; Builder / Compiler identify sections by id, for them
        // the foreign .text section simply denotes section 0 (valid).
        *must_fail_out = s.emitter_kind == 0;
        r.err = e.section(s.foreign.text_section());
        break;
      }
      case kBadNamedLabel: {
        // duplicate global name / invalid parent / over-long name
        *must_fail_out = true;
        Label l;
        if ((op.a[0] % 3) == 0) { Label first = e.new_named_label("c14_dup", SIZE_MAX, LabelType::kGlobal); if (first.is_valid()) { s.labels.made.push_back(first); *must_fail_out = false; r.err = Error::kOk; break; } l = first; }
        else if ((op.a[0] % 3) == 1) {
          // a local label needs an existing parent: the first id that does not exist yet (the id the new label itself is
          // about to get), ids beyond it and the invalid id are all refused
          static const uint32_t beyond[] = {0, 1, 2, 1000, 0x7ffffff0u};
          uint32_t k = uint32_t(uint64_t(op.a[1]) % 6);
          uint32_t parent = k == 5 ? Globals::kInvalidId : uint32_t(s.code.label_count()) + beyond[k];
          char nm[32]; snprintf(nm, sizeof nm, "c14_local_%u", k);
          l = e.new_named_label(nm, SIZE_MAX, LabelType::kLocal, parent);
        }
        else { std::string big(size_t(70000), 'n'); l = e.new_named_label(big.c_str(), big.size(), LabelType::kGlobal); }
        r.err = l.is_valid() ? Error::kOk : make_error(Error::kInvalidLabelName);
        if (l.is_valid()) s.labels.made.push_back(l);
        break;
      }
      case kBadEmbedArray: {
        // an invalid type id, or a size computation (items * item size * repeat) that does not fit into size_t
        uint64_t d[2] = {1, 2}; *must_fail_out = true; s.last_must_fail_other = true;
        switch (op.a[2] % 5) {
          case 1: r.err = e.embed_data_array(TypeId::kUInt64, d, SIZE_MAX / 8 + 2, 1); break;
          case 2: r.err = e.embed_data_array(TypeId::kUInt32, d, SIZE_MAX / 4 + 2, 3); break;
          case 3: r.err = e.embed_data_array(TypeId::kUInt16, d, SIZE_MAX / 2 + 1, 1 + size_t(op.a[0] % 2)); break;
          case 4: r.err = e.embed_data_array(TypeId::kUInt8, d, 4, SIZE_MAX / 2 - size_t(op.a[0] % 7)); break;
          default: r.err = e.embed_data_array(TypeId(uint32_t(200 + op.a[0] % 50)), d, 2, 1); break;
        }
        break;
      }
      case kX86Locked: {
        // LOCK is only defined for read-modify-write instructions whose DESTINATION is memory: with a register destination
        // (whatever the source is) the prefixed instruction raises #UD, so the call cannot be accepted.
        if (s.target == gen::Target::kA64) break;
        namespace I = x86::Inst;
        static const uint32_t two[] = {I::kIdAdd, I::kIdAdc, I::kIdAnd, I::kIdOr, I::kIdSbb, I::kIdSub, I::kIdXor, I::kIdXadd, I::kIdCmpxchg, I::kIdBts, I::kIdBtr, I::kIdBtc};
        static const uint32_t one[] = {I::kIdInc, I::kIdDec, I::kIdNot, I::kIdNeg};
        bool is64 = s.target == gen::Target::kX64;
        x86::Gp r0 = is64 && (op.a[1] & 8) ? x86::Gp(x86::rbx) : x86::Gp(x86::ebx), r1 = r0.is_gp64() ? x86::Gp(x86::rdx) : x86::Gp(x86::edx);
        x86::Mem m = x86::ptr(is64 ? x86::Gp(x86::rsi) : x86::Gp(x86::esi), int32_t(op.a[1] & 0x70), r0.size());
        uint32_t shape = uint32_t(uint64_t(op.a[0]) % 6);
        e.set_inst_options(InstOptions::kX86_Lock);
        bool dst_is_mem;
        if (shape < 2) { uint32_t id = one[size_t(uint64_t(op.a[2])) % 4]; dst_is_mem = shape == 0; r.err = dst_is_mem ? e.emit(id, m) : e.emit(id, r0); }
        else {
          uint32_t id = two[size_t(uint64_t(op.a[2])) % 12];
          dst_is_mem = shape == 2 || shape == 5;
          if (shape == 2) r.err = e.emit(id, m, r1);
          else if (shape == 3) r.err = e.emit(id, r0, m);
          else if (shape == 4) r.err = e.emit(id, r0, r1);
          else r.err = e.emit(id, m, Imm(int64_t(1 + (op.a[1] & 7))));
        }
        if (!dst_is_mem) { *must_fail_out = true; s.last_must_fail_other = true; sim::count("c14.probe.lock_without_memory_destination"); }
        break;
      }
      case kX86ZMask: {
        // AVX-512 zeroing-masking {z} only exists for instructions that write a vector register: with a mask register or
        // memory as destination EVEX.z is reserved (#UD).
        if (s.target == gen::Target::kA64) break;
        namespace I = x86::Inst;
        uint32_t shape = uint32_t(uint64_t(op.a[0]) % 6);
        uint32_t kreg = uint32_t(1 + uint64_t(op.a[1]) % 7);
        x86::Vec z1 = x86::zmm(1), z2 = x86::zmm(2), z3 = x86::zmm(uint32_t(3 + uint64_t(op.a[2]) % 4));
        x86::Mem m = x86::zmmword_ptr(s.target == gen::Target::kX64 ? x86::Gp(x86::rsi) : x86::Gp(x86::esi), 64);
        e.set_inst_options(InstOptions::kX86_ZMask);
        if (kreg) e.set_extra_reg(x86::k(kreg));
        bool dst_is_vec = shape < 3;
        switch (shape) {
          case 0: r.err = e.emit(I::kIdVaddps, z1, z2, z3); break;
          case 1: r.err = e.emit(I::kIdVpaddd, z1, z2, m); break;
          case 2: r.err = e.emit(I::kIdVmovdqu32, z1, m); break;
          case 3: r.err = e.emit(I::kIdVpcmpeqd, x86::k(2), z2, z3); break;      // destination is a mask register
          case 4: r.err = e.emit(I::kIdVptestmd, x86::k(3), z2, z3); break;
          default: r.err = e.emit(I::kIdVmovdqu32, m, z1); break;                // destination is memory
        }
        if (!dst_is_vec) { *must_fail_out = true; s.last_must_fail_other = true; sim::count("c14.probe.zmask_without_vector_destination_or_mask"); }
        break;
      }
      case kX86AbsAddr: {
        // A memory operand that is an absolute address (no base): on a 32-bit target the address has to fit 32 bits (read
        // as signed or unsigned); with an index register in 64-bit mode it has to be a sign-extended 32-bit value (without an
        // index it becomes RIP-relative / relocated, which is fine).
        if (s.target == gen::Target::kA64) break;
        bool is64 = s.target == gen::Target::kX64;
        static const uint64_t addrs[] = {0x100000004ull, 0x7FFFFFFFFFFFull, 0x8000000000000000ull, 0xFFFFFFFF7FFFFFFFull, 0x100000000ull, 0xFFFFFFFFull, 0x80000000ull, 0xFFFFFFFF80000000ull, 0x7FFFFFFFull, 0x1000ull};
        uint64_t addr = addrs[size_t(uint64_t(op.a[0]) % 10)] + ((op.a[1] & 16) ? 0 : uint64_t(op.a[1] & 8));
        bool with_index = (op.a[1] & 1) != 0;
        bool fits_i32 = int64_t(addr) == int64_t(int32_t(uint32_t(addr))), fits_u32 = addr <= 0xFFFFFFFFull;
        bool bad = is64 ? (with_index && !fits_i32) : (!fits_i32 && !fits_u32);
        x86::Mem m = with_index ? x86::ptr(addr, is64 ? x86::Gp(x86::rbx) : x86::Gp(x86::ebx), uint32_t(op.a[2] & 3), 4) : x86::ptr(addr, 4);
        if (bad) { *must_fail_out = true; s.last_must_fail_other = true; sim::count("c14.probe.absolute_address_not_encodable"); }
        switch (uint64_t(op.a[2] >> 2) % 3) {
          case 0: r.err = e.emit(x86::Inst::kIdMov, x86::ecx, m); break;
          case 1: r.err = e.emit(x86::Inst::kIdAdd, m, x86::edx); break;
          default: r.err = e.emit(x86::Inst::kIdCmp, m, Imm(int64_t(op.a[2] & 0x7f))); break;
        }
        break;
      }
      case kX86BadRegId: {
        // A well-formed instruction in which ONE register id lies outside the register file of the mode: as base or index of
        // a memory operand (general purpose registers: 8 in 32-bit mode, 16 in 64-bit mode), as {k} mask (k1..k7), or as a
        // plain register operand. Ids inside the file are accepted - those calls are the control group.
        if (s.target == gen::Target::kA64) break;
        bool is64 = s.target == gen::Target::kX64;
        uint32_t gp_count = is64 ? 16 : 8;
        static const uint32_t ids[] = {0, 3, 7, 8, 15, 16, 17, 20, 31};
        uint32_t id = ids[size_t(uint64_t(op.a[0]) % 9)];
        RegType gp_type = is64 ? RegType::kGp64 : RegType::kGp32;
        x86::Gp good = is64 ? x86::Gp(x86::rbx) : x86::Gp(x86::ebx);
        Reg odd = Reg::from_type_and_id(gp_type, id);
        bool bad = false;
        switch (uint64_t(op.a[1]) % 6) {
          case 5: { x86::Mem m = x86::ptr(good, 8, 4); uint32_t seg = id & 7u; m.set_segment(seg); bad = seg == 7; /* es cs ss ds fs gs are 1..6 */ r.err = e.emit(x86::Inst::kIdMov, x86::eax, m); break; }
          case 0: { x86::Mem m = x86::ptr(good, 8, 4); m.set_base(odd); bad = id >= gp_count; r.err = e.emit(x86::Inst::kIdMov, x86::eax, m); break; }
          case 1: { x86::Mem m = x86::ptr(good, good, 1, 8, 4); m.set_index(odd, 1); bad = id >= gp_count || id == 4 /* esp/rsp cannot be an index */; r.err = e.emit(x86::Inst::kIdMov, x86::eax, m); break; }
          case 2: { bad = id == 0 || id >= 8; e.set_extra_reg(Reg::from_type_and_id(RegType::kMask, id)); r.err = e.emit(x86::Inst::kIdVaddps, x86::zmm(1), x86::zmm(2), x86::zmm(3)); break; }
          case 3: { bad = id >= gp_count; r.err = e.emit(x86::Inst::kIdAdd, Reg::from_type_and_id(RegType::kGp32, id), x86::edx); break; }
          default: { x86::Mem m = x86::ptr(good, 16, 16); m.set_base(odd); bad = id >= gp_count; r.err = e.emit(x86::Inst::kIdVaddps, x86::xmm(1), x86::xmm(2), m); break; }
        }
        if (bad) { *must_fail_out = true; s.last_must_fail_other = true; sim::count("c14.probe.x86_register_id_outside_the_file"); }
        break;
      }
      case kX86FarJcc: {
        // A conditional jump only has rel8 / rel32 forms and cannot be routed through the address table: with the base
        // address known, an absolute target out of the rel32 range cannot be encoded and must be refused at once (without a
        // known base the decision is relocate_to_base()'s - C04).
        if (s.target == gen::Target::kA64) break;
        static const uint32_t jcc[] = {x86::Inst::kIdJz, x86::Inst::kIdJnz, x86::Inst::kIdJl, x86::Inst::kIdJae, x86::Inst::kIdJs};
        bool far = (op.a[1] & 1) != 0;
        uint64_t here = (s.base == Globals::kNoBaseAddress ? 0x10000ull : s.base);
        uint64_t t = far ? here + ((op.a[1] & 2) ? 0x180000000ull : uint64_t(-0x180000000ll)) + uint64_t(op.a[2] & 0xfff) : here + uint64_t(op.a[2] & 0xffff);
        if (s.target == gen::Target::kX86) t &= 0xffffffffull;
        /* (in a section whose offset is not known yet the distance cannot be computed: the reference is left to relocation) */
        if (far && s.target == gen::Target::kX64 && s.base != Globals::kNoBaseAddress && s.emitter_kind == 0 && static_cast<BaseAssembler&>(e).current_section()->section_id() == 0) { *must_fail_out = true; s.last_must_fail_other = true; sim::count("c14.probe.far_jcc_with_known_base"); }
        r.err = e.emit(jcc[size_t(uint64_t(op.a[0]) % 5)], Imm(t));
        break;
      }
      case kBadSetOffset: {
        // Assembler::set_offset() beyond the end of the section's content (within the buffer's capacity or far outside)
        if (s.emitter_kind != 0) break;
        BaseAssembler& as = static_cast<BaseAssembler&>(e);
        size_t size = as.current_section()->buffer_size(), cap = as.current_section()->buffer().capacity();
        static const size_t beyond[] = {1, 2, 7, 16, 100};
        size_t n;
        switch (uint64_t(op.a[0]) % 4) { case 0: n = size + beyond[size_t(uint64_t(op.a[1]) % 5)]; break; case 1: n = cap > size ? cap : size + 1; break; case 2: n = cap + 1; break; default: n = SIZE_MAX - size_t(uint64_t(op.a[1]) % 3); break; }
        *must_fail_out = true; s.last_must_fail_other = true;
        size_t offset_before = as.offset();
        r.err = as.set_offset(n);
        if (r.err == Error::kOk) (void)as.set_offset(offset_before);
        else SIM_CHECK(as.offset() == offset_before, "c14:failed-call-changed-state", "a refused set_offset(%zu) moved the cursor from %zu to %zu", n, offset_before, as.offset());
        break;
      }
      case kTooManyOperands: {
        // emit_op_array() with more operands than an instruction can have, while one-shot state is pending
        Operand ops[8];
        for (auto& o : ops) o = s.target == gen::Target::kA64 ? Operand(a64::x(1)) : Operand(x86::ecx);
        if (op.a[1] & 1) e.set_inst_options(s.target == gen::Target::kA64 ? InstOptions::kShortForm : InstOptions::kX86_Rep);
        if (op.a[1] & 2) e.set_inline_comment("one-shot comment");
        *must_fail_out = true; s.last_must_fail_other = true;
        r.err = e.emit_op_array(InstId(s.target == gen::Target::kA64 ? uint32_t(a64::Inst::kIdAdd) : uint32_t(x86::Inst::kIdAdd)), ops, size_t(7 + (op.a[0] & 1)));
        break;
      }
      case kDetachedEmit: {
        // An Assembler that is not attached refuses to emit, and the one-shot state given to the refused call must not be
        // applied to the first instruction emitted after it has been attached again.
        if (s.emitter_kind != 0) break;
        BaseAssembler& as = static_cast<BaseAssembler&>(e);
        uint32_t section_id = as.current_section()->section_id();
        size_t offset = as.offset();
        if (s.code.detach(&e) != Error::kOk) break;
        try {
          if (s.target == gen::Target::kA64) { if (op.a[1] & 1) e.set_inline_comment("one-shot comment"); else e.set_inst_options(InstOptions::kShortForm); r.err = e.emit(a64::Inst::kIdNop); }
          else { e.set_inst_options((op.a[1] & 1) ? InstOptions::kX86_Rep : InstOptions::kX86_Lock); if (op.a[1] & 2) e.set_inline_comment("one-shot comment"); r.err = e.emit(x86::Inst::kIdMovs, x86::byte_ptr(s.target == gen::Target::kX64 ? x86::Gp(x86::rdi) : x86::Gp(x86::edi)), x86::byte_ptr(s.target == gen::Target::kX64 ? x86::Gp(x86::rsi) : x86::Gp(x86::esi))); }
        }
        catch (Error thrown) { r.err = thrown; r.threw = true; }   /* (the emitter must be attached again whatever the handler does) */
        *must_fail_out = true;
        bool cleared = e.inst_options() == InstOptions::kNone && !e.has_extra_reg() && e.inline_comment() == nullptr;
        Error ae = s.code.attach(&e);
        SIM_CHECK(ae == Error::kOk, "c14:reattach-failed", "attaching the Assembler again failed with error %u", unsigned(ae));
        (void)as.section(s.code.section_by_id(section_id));
        as.set_offset(offset);
        SIM_CHECK(cleared, "c14:one-shot-state-not-cleared", "an emit refused with error %u because the emitter was detached left its one-shot state (options / comment) pending for the next instruction", unsigned(r.err));
        break;
      }
      case kX86ShortJump: {
        // instructions that only have (or are forced into) the rel8 form: onto a label that is bound too far away they
        // cannot be encoded
        if (s.target == gen::Target::kA64) break;
        Label l = note_label(select_label(s.labels, op.a[1], s.code), s.code);
        if (!s.code.is_label_valid(l)) invalid_label_ref = true;
        else if (s.emitter_kind == 0 && s.code.is_label_bound(l)) {
          BaseAssembler& as = static_cast<BaseAssembler&>(e);
          const LabelEntry& le = s.code.label_entry_of(l);
          if (le.section_id() == as.current_section()->section_id()) {
            int64_t dist = int64_t(le.offset()) - int64_t(as.offset());
            if (dist > 140 || dist < -135) { *must_fail_out = true; s.last_must_fail_other = true; sim::count("c14.probe.rel8_only_jump_too_far"); }
          }
        }
        static const uint32_t ids[] = {x86::Inst::kIdJecxz, x86::Inst::kIdLoop, x86::Inst::kIdLoope, x86::Inst::kIdLoopne};
        uint32_t which = uint32_t(uint64_t(op.a[0]) % 6);
        if (which < 4) r.err = e.emit(ids[which], x86::ecx, l);
        else { e.set_inst_options(InstOptions::kShortForm); r.err = e.emit(which == 4 ? x86::Inst::kIdJmp : x86::Inst::kIdJz, l); }
        break;
      }
      default: break;
    }
  }
  catch (Error thrown) { r.err = thrown; r.threw = true; }
  g_invalid_ids = nullptr;
  if (invalid_label_ref) *must_fail_out = true;
  r.handler_calls = s.eh.count;
  return r;
}

gen::Program program_from(const Plan& plan) {
  Rng r(sim::mix64(uint64_t(plan.get("prog_seed", 1))));
  gen::GenOptions o; o.steps = size_t(plan.get("prog_steps", 20));
  return gen::generate_program(r, gen::Target(plan.get("target", 1)), o);
}

void execute(const Plan& plan) {
  gen::Target target = gen::Target(plan.get("target", 1));
  int kind = int(plan.get("emitter", 0));
  int hm = int(plan.get("handler", 0));
  sim::heap::configure(int(plan.get("junk", 0)), int(plan.get("realloc_move", 0)), 0, plan.seed);
  sim::set_knob_code_buffer(size_t(plan.get("code_buffer", 0)));
  sim::heap::arm(true);
  gen::Program prog = program_from(plan);
  std::vector<size_t> succeeded;   // indexes into plan.ops
  std::vector<Error> expected_error;
  bool deferred_must_fail = false;
  std::vector<uint32_t> deferred_label_ids;   // Builder/Compiler: label ids that were invalid when an accepted call referenced them
  std::string final_snapshot;
  uint64_t failed_calls = 0;
  {
    uint64_t known_base = plan.get("known_base", 0) ? (target == gen::Target::kX86 ? 0x40000000ull : 0x0000200000000000ull) : Globals::kNoBaseAddress;
    Subject s(target, kind, hm, known_base, plan.get("validate", 1) != 0);
    for (size_t i = 0; i < plan.ops.size(); i++) {
      const Op& op = plan.ops[i];
      sim::begin_op(op, i);
      sim::add_steps(1);
      State before = capture(s.code, *s.e);
      bool must_fail = false;
      CallResult r = perform(s, prog, op, &must_fail);
      sim::logf("%s -> err=%u threw=%d handler=%u", op_name(op.kind), unsigned(r.err), int(r.threw), r.handler_calls);
      // bind() of a label whose pending reference cannot be represented reports kInvalidDisplacement, binds the label and
      // keeps the reference counted as unresolved - that is the behaviour C03 describes for unrepresentable references,
      // not a rejected invalid call; the fresh emitter must report the same.
      bool is_bind = op.kind == kBadBind || (op.kind == kValidStep && size_t(op.a[0]) < prog.steps.size() && prog.steps[size_t(op.a[0])].kind == gen::StepKind::kBind);
      // (embed_const_pool binds its label as well; the label then stays bound although the call stops at the error.)
      bool bound_a_label = r.err == Error::kInvalidDisplacement && capture(s.code, *s.e).bound > before.bound;
      bool deferred_reference_error = r.err == Error::kInvalidDisplacement && (is_bind || bound_a_label);
      if (deferred_reference_error) { succeeded.push_back(i); expected_error.push_back(r.err); sim::count("c14.probe.bind_reported_unrepresentable_reference"); sim::end_op(); continue; }
      if (r.err != Error::kOk) {
        failed_calls++;
        State after = capture(s.code, *s.e);
        SIM_CHECK(before == after, "c14:failed-call-changed-state", "a call that reported error %u (%s%s) changed the holder: %s", unsigned(r.err), op_name(op.kind), r.threw ? ", handler threw" : "", describe(before, after).c_str());
        SIM_CHECK(s.e->inst_options() == InstOptions::kNone && !s.e->has_extra_reg() && s.e->inline_comment() == nullptr, "c14:one-shot-state-not-cleared",
                  "after a failed %s (error %u%s) the one-shot state is still set: options=%#x extra_reg=%d comment=%d", op_name(op.kind), unsigned(r.err), r.threw ? ", handler threw" : "", unsigned(s.e->inst_options()), int(s.e->has_extra_reg()), int(s.e->inline_comment() != nullptr));
        if (hm != kHandlerNone && op.kind != kBadNamedLabel && op.kind != kBadSection) {
          if (r.handler_calls == 0) sim::count("c14.probe.error_without_handler_call"); else if (r.handler_calls > 1) sim::count("c14.probe.handler_called_more_than_once");
          // The statement requires the error to be reported through the return value AND the attached handler.
          if (op.kind == kBadBind || op.kind == kBadAlign || op.kind == kBadEmbedLabel || op.kind == kBadEmbedDelta || op.kind == kBadEmbedArray || op.kind == kBadSetOffset || op.kind == kCall || op.kind == kA64Form || op.kind == kX86ShortJump || op.kind == kX86Locked || op.kind == kX86ZMask || op.kind == kTooManyOperands || op.kind == kX86AbsAddr || op.kind == kX86BadRegId || op.kind == kX86FarJcc || op.kind == kValidStep) SIM_CHECK(r.handler_calls >= 1, "c14:error-not-reported-to-handler", "%s returned error %u but the attached error handler was never invoked", op_name(op.kind), unsigned(r.err));
        }
      }
      else {
        // Builder / Compiler store the call as a node; an argument that cannot be checked before serialisation (label ids in
        // embed_label / embed_label_delta / instructions, alignment values, data types) must then make finalize() fail.
        if (must_fail && kind != 0 && op.kind != kBadNamedLabel) { if (s.last_must_fail_other) deferred_must_fail = true; for (uint32_t id : s.last_invalid_label_ids) deferred_label_ids.push_back(id); sim::count("c14.probe.builder_deferred_check"); }
        else SIM_CHECK(!must_fail, "c14:invalid-input-accepted", "%s with an invalid argument (%s) reported success", op_name(op.kind), op.kind == kCall ? "label id beyond the label count" : "see operation");
        // one-shot state is cleared on success as well
        SIM_CHECK(s.e->inst_options() == InstOptions::kNone && !s.e->has_extra_reg() && s.e->inline_comment() == nullptr, "c14:one-shot-state-not-cleared", "after a successful %s the one-shot state is still set", op_name(op.kind));
        succeeded.push_back(i); expected_error.push_back(Error::kOk);
      }
      sim::end_op();
    }
    sim::begin_op(Op(), plan.ops.size());
    if (kind != 0) {
      s.eh.reset();
      Error fe;
      try { fe = s.e->finalize(); } catch (Error thrown) { fe = thrown; }
      final_snapshot = "finalize=" + std::to_string(unsigned(fe)) + "\n";
      // a label id that was out of range when a node was created may have become valid by now
      for (uint32_t id : deferred_label_ids) if (!s.code.is_label_valid(id)) deferred_must_fail = true;
      if (deferred_must_fail) SIM_CHECK(fe != Error::kOk, "c14:invalid-input-accepted", "a Builder/Compiler accepted a call that references an invalid label and finalize() reported success as well");
    }
    final_snapshot += gen::snapshot(s.code);
    sim::end_op();
  }
  // ---- refinement: a fresh emitter that is given only the calls that succeeded --------------------------------------
  sim::begin_op(Op(), plan.ops.size() + 1);
  std::string fresh_snapshot;
  {
    Subject f(target, kind, kHandlerRecording, plan.get("known_base", 0) ? (target == gen::Target::kX86 ? 0x40000000ull : 0x0000200000000000ull) : Globals::kNoBaseAddress, plan.get("validate", 1) != 0);
    for (size_t k = 0; k < succeeded.size(); k++) {
      size_t i = succeeded[k];
      bool must_fail = false;
      CallResult r = perform(f, prog, plan.ops[i], &must_fail);
      SIM_CHECK(r.err == expected_error[k], "c14:fresh-emitter-disagrees", "call #%zu (%s) succeeded after failed calls but fails with error %u on a fresh emitter that never saw a failure", i, op_name(plan.ops[i].kind), unsigned(r.err));
    }
    if (kind != 0) { f.eh.reset(); Error fe = f.e->finalize(); fresh_snapshot = "finalize=" + std::to_string(unsigned(fe)) + "\n"; }
    fresh_snapshot += gen::snapshot(f.code);
  }
  if (fresh_snapshot != final_snapshot) {
    size_t pos = 0; while (pos < fresh_snapshot.size() && pos < final_snapshot.size() && fresh_snapshot[pos] == final_snapshot[pos]) pos++;
    size_t ls = final_snapshot.rfind('\n', pos); ls = ls == std::string::npos ? 0 : ls + 1;
    sim::fail("c14:differs-from-fresh-emitter", "after %llu failed call(s) the emitter's output differs from a fresh emitter that was given only the %zu calls that succeeded, near:\n  with failures: %.140s\n  fresh:         %.140s",
              (unsigned long long)failed_calls, succeeded.size(), final_snapshot.c_str() + ls, fresh_snapshot.c_str() + (ls < fresh_snapshot.size() ? ls : 0));
  }
  if (failed_calls) sim::mark_nontrivial();
  sim::count("c14.failed_calls", failed_calls);
  sim::count("c14.succeeded_calls", succeeded.size());
  sim::heap::arm(false);
  SIM_CHECK(sim::heap::live_blocks_this_run() == 0, "c14:leak", "%zu heap block(s) left:%s", sim::heap::live_blocks_this_run(), sim::heap::describe_live_blocks_this_run().c_str());
  sim::end_op();
}

// ---- generation -------------------------------------------------------------------------------------------------------------

std::string random_operand(Rng& r, gen::Target t) {
  switch (r.below(10)) {
    case 0: case 1: case 2: {   // register of any type / id
      uint32_t type = r.chance(2, 3) ? uint32_t(r.pick((const uint32_t[]){5, 6, 11, 12, 13, 4, 2, 3})) : uint32_t(2 + r.below(30));
      uint32_t id = r.chance(3, 4) ? uint32_t(r.below(32)) : uint32_t(r.pick((const uint32_t[]){32, 63, 64, 100, 255, 256, 1000, 0x7fffffff, 0xffffffffu}));
      return operand_text(0, type, id);
    }
    case 3: case 4: case 5: {   // memory
      int64_t base_kind = int64_t(r.below(8));   // 0 abs, 1 label, >=2 reg type
      if (base_kind >= 2) base_kind = r.chance(3, 4) ? (t == gen::Target::kX86 ? 5 : 6) : int64_t(2 + r.below(30));
      int64_t base_id = base_kind == 1 ? (r.chance(2, 3) ? int64_t(r.below(8)) : -int64_t(1 + r.below(8))) : int64_t(r.chance(5, 6) ? r.below(32) : r.below(300));
      uint64_t pk = 0;
      if (r.chance(1, 2)) pk |= 1 | (uint64_t(r.chance(3, 4) ? (t == gen::Target::kX86 ? 5 : 6) : 2 + r.below(30)) << 1) | (uint64_t(r.below(r.chance(5, 6) ? 16 : 256)) << 6) | (uint64_t(r.below(4)) << 14);
      if (r.chance(1, 5)) pk |= (1u << 16) | (uint64_t(r.below(8)) << 17);
      pk |= uint64_t(r.pick((const uint32_t[]){0, 0, 1, 2, 4, 8, 16, 32, 64, 3, 10, 255})) << 20;
      if (r.chance(1, 8)) pk |= (1u << 28) | (uint64_t(r.below(8)) << 29);
      if (r.chance(1, 6)) pk |= (1ull << 32) | (uint64_t(r.below(2)) << 33);
      int64_t off = r.chance(1, 2) ? int64_t(r.below(256)) - 128 : int64_t(int32_t(r.next()));
      if (base_kind == 0) off = int64_t(r.chance(1, 2) ? r.below(0x7fffffff) : r.next());
      return operand_text(1, base_kind, base_id, int64_t(pk), off);
    }
    case 6: case 7: return operand_text(2, r.chance(1, 2) ? int64_t(r.below(256)) - 128 : int64_t(r.next()));
    default: return operand_text(3, r.chance(1, 2) ? int64_t(r.below(8)) : -int64_t(1 + r.below(8)));
  }
}

// AArch64: a valid palette form with ids / immediates / offsets / labels perturbed (operand kinds kept).
void perturbed_a64_call(Rng& r, Op& op) {
  namespace I = a64::Inst;
  auto gp = [&](bool w) { uint32_t id = r.chance(2, 3) ? uint32_t(r.below(32)) : uint32_t(r.pick((const uint32_t[]){31, 32, 33, 63, 64, 255, 256, 1000, 0xffffffffu})); return operand_text(0, w ? 5 : 6, id); };
  auto imm = [&]() { return operand_text(2, r.chance(1, 3) ? int64_t(r.below(4096)) : r.chance(1, 2) ? int64_t(r.next()) : -int64_t(r.below(100000))); };
  auto lbl = [&]() { return operand_text(3, r.chance(1, 2) ? int64_t(r.below(8)) : -int64_t(1 + r.below(8))); };
  auto mem = [&]() { int64_t off = r.chance(1, 3) ? int64_t(r.below(4096)) * 8 : r.chance(1, 2) ? int64_t(int32_t(r.next())) : int64_t(r.below(64)) - 32; uint64_t pk = 0; if (r.chance(1, 4)) pk |= 1 | (uint64_t(6) << 1) | (uint64_t(r.below(40)) << 6); if (r.chance(1, 4)) pk |= (1u << 14) | (uint64_t(r.below(64)) << 15); if (r.chance(1, 4)) pk |= (1u << 21) | (uint64_t(r.below(2)) << 22);
                     return operand_text(1, r.chance(1, 6) ? 1 : 2 + r.below(1), r.chance(2, 3) ? int64_t(r.below(32)) : int64_t(r.below(300)), int64_t(pk), off); };
  // (AArch64 has no operand validator: operand KINDS are kept, as the typed C++ API enforces them.)
  switch (r.below(10)) {
    case 0: op.a[0] = I::kIdAdd; op.s = gp(false) + gp(false) + gp(false); break;
    case 1: op.a[0] = I::kIdSub; op.s = gp(false) + gp(false) + imm(); break;
    case 2: op.a[0] = I::kIdMovz; op.s = gp(false) + imm(); break;
    case 3: op.a[0] = I::kIdLdr; op.s = gp(false) + mem(); break;
    case 4: op.a[0] = I::kIdStr; op.s = gp(true) + mem(); break;
    case 5: op.a[0] = I::kIdB; op.s = lbl(); break;
    case 6: op.a[0] = I::kIdCbz; op.s = gp(false) + lbl(); break;
    case 7: op.a[0] = I::kIdAdr; op.s = gp(false) + lbl(); break;
    case 8: op.a[0] = I::kIdTbz; op.s = gp(false) + imm() + lbl(); break;
    default: op.a[0] = I::kIdAnd; op.s = gp(true) + gp(true) + gp(true); break;
  }
}

Plan generate(uint64_t seed, bool thorough) {
  Plan p;
  Rng cfg = sim::stream(seed, "cfg");
  Rng r = sim::stream(seed, "plan");
  int target = int(cfg.below(3));
  p.set("target", target);
  p.set("emitter", cfg.chance(2, 3) ? 0 : int64_t(1 + cfg.below(2)));
  p.set("handler", int64_t(cfg.below(kHandlerModeCount)));
  p.set("known_base", int64_t(cfg.chance(1, 3) ? 1 : 0));
  p.set("validate", int64_t(cfg.chance(1, 2) ? 1 : 0));
  p.set("prog_seed", int64_t(cfg.next() & 0x7fffffffffffll));
  size_t steps = size_t(5 + cfg.below(thorough ? 60 : 30));
  p.set("prog_steps", int64_t(steps));
  p.set("junk", int64_t(cfg.below(4)));
  p.set("realloc_move", int64_t(cfg.below(2)));
  p.set("code_buffer", cfg.chance(1, 2) ? int64_t(32 << cfg.below(3)) : 0);
  gen::Program prog = program_from(p);
  uint32_t invalid_num = uint32_t(1 + cfg.below(3));   // invalid calls per valid step: invalid_num / 4
  for (size_t i = 0; i < prog.steps.size(); i++) {
    while (r.below(4) < invalid_num) {
      Op op;
      uint32_t which = uint32_t(r.below(12));
      if (which < 7) {
        op.kind = kCall;
        if (target == 2 && r.chance(3, 4) && !gen::a64_forms().empty()) {
          op.kind = kA64Form;
          op.a[0] = int64_t(r.below(gen::a64_forms().size()));
          op.a[1] = int64_t(r.next() & 0x7fffffffffffll);
          op.a[2] = r.chance(1, 6) ? 0 : int64_t(r.chance(1, 2) ? (1u << r.below(4)) : r.below(64));   // which operands are perturbed (0: the valid form itself)
          op.a[3] = r.chance(2, 3) ? 0 : int64_t(r.below(8));
          if (r.chance(1, 10)) op.a[3] |= 16;  // a condition code is composed into the instruction id
          if (r.chance(1, 8)) op.a[3] |= 8;   // every arrangement operand switches between its 64-bit and 128-bit view
          p.ops.push_back(op);
          continue;
        }
        if (target == 2) perturbed_a64_call(r, op);
        else {
          op.a[0] = int64_t(r.chance(9, 10) ? r.below(x86::Inst::_kIdCount) : x86::Inst::_kIdCount + r.below(200));
          size_t n = size_t(r.below(7));
          for (size_t k = 0; k < n; k++) op.s += random_operand(r, gen::Target(target));
        }
        op.a[1] = r.chance(2, 3) ? 0 : int64_t(r.chance(1, 2) ? (1u << r.below(32)) : uint32_t(r.next()));
        op.a[2] = r.chance(4, 5) ? 0 : int64_t((r.below(32) << 16) | r.below(40));
        op.a[3] = int64_t(r.below(2));
      }
      else {
        static const uint16_t ks[] = {kBadBind, kBadAlign, kBadEmbedLabel, kBadEmbedDelta, kBadSection, kBadNamedLabel, kBadEmbedArray, kX86ShortJump, kX86Locked, kX86ZMask, kTooManyOperands, kDetachedEmit, kX86AbsAddr, kX86BadRegId, kX86FarJcc, kBadSetOffset};
        op.kind = r.pick(ks);
        if ((op.kind == kX86ShortJump || op.kind == kX86Locked || op.kind == kX86ZMask || op.kind == kX86AbsAddr || op.kind == kX86BadRegId || op.kind == kX86FarJcc) && target == 2) op.kind = kBadAlign;
        op.a[0] = r.chance(1, 2) ? int64_t(r.below(8)) : -int64_t(1 + r.below(8)); op.a[1] = r.chance(1, 2) ? int64_t(r.below(8)) : -int64_t(1 + r.below(8)); op.a[2] = int64_t(r.below(100));
        if (op.kind == kBadAlign || op.kind == kBadEmbedArray || op.kind == kBadNamedLabel || op.kind == kX86BadRegId) op.a[0] = int64_t(r.below(1000));
        if (op.kind == kBadEmbedLabel) op.a[1] = int64_t(r.below(1000));
      }
      p.ops.push_back(op);
    }
    Op v; v.kind = kValidStep; v.a[0] = int64_t(i);
    p.ops.push_back(v);
  }
  return p;
}

void shrink(const Plan& p, std::vector<Plan>& out) {
  static const char* const zero_keys[] = {"junk", "realloc_move", "code_buffer", "handler", "emitter", "known_base"};
  if (!p.get("validate", 1)) { Plan q = p; q.set("validate", 1); out.push_back(q); }
  for (const char* k : zero_keys) if (p.get(k)) { Plan q = p; q.set(k, 0); out.push_back(q); }
  // drop operands of calls one by one (not on AArch64, where the operand kinds of a form must be kept)
  for (size_t i = 0; i < p.ops.size(); i++) {
    if (p.ops[i].kind == kA64Form) {
      // fewer perturbed operands, less one-shot state
      for (int b = 0; b < 6; b++) if ((p.ops[i].a[2] >> b) & 1) { Plan q = p; q.ops[i].a[2] &= ~(int64_t(1) << b); out.push_back(q); }
      for (int b = 0; b < 3; b++) if ((p.ops[i].a[3] >> b) & 1) { Plan q = p; q.ops[i].a[3] &= ~(int64_t(1) << b); out.push_back(q); }
      continue;
    }
    if (p.ops[i].kind != kCall) continue;
    if (p.get("target") == 2) { for (int k = 1; k <= 3; k++) if (p.ops[i].a[k]) { Plan q = p; q.ops[i].a[k] = 0; out.push_back(q); } continue; }
    const std::string& s = p.ops[i].s;
    size_t start = 0;
    while (start < s.size()) { size_t e = s.find(';', start); if (e == std::string::npos) break; Plan q = p; q.ops[i].s = s.substr(0, start) + s.substr(e + 1); out.push_back(q); start = e + 1; }
    for (int k = 1; k <= 3; k++) if (p.ops[i].a[k]) { Plan q = p; q.ops[i].a[k] = 0; out.push_back(q); }
  }
}

// ---- Compiler: arbitrary virtual register ids ----------------------------------------------------------------------------
// A function with a valid body into which instructions with invalid virtual registers are mixed: ids beyond the number
// of registers created, ids of another register group than the operand claims, invalid ids as memory base / index.
// finalize() must report an error (never crash) when such an instruction is present and succeed otherwise; afterwards
// the same objects, reset, must compile the valid-only function exactly like fresh ones.
enum VirtOp : uint16_t { kVirtValid = 100, kVirtBadId, kVirtWrongGroup, kVirtBadMemBase, kVirtBadMemIndex };

std::string compile_virt(const Plan& plan, bool include_invalid, CodeHolder& code, x86::Compiler& cc, Error* result, bool* had_invalid, bool* may_fail) {
  *had_invalid = false; *may_fail = false;
  FuncNode* fn = cc.add_func(FuncSignature::build<uint64_t, uint64_t, uint64_t>());
  std::vector<x86::Gp> regs;
  uint32_t nregs = uint32_t(plan.get("nregs", 4));
  for (uint32_t i = 0; i < nregs; i++) regs.push_back(cc.new_gp64("r%u", i));
  if (fn) { fn->set_arg(0, regs[0]); fn->set_arg(1, regs[1 % nregs]); }
  for (uint32_t i = 2; i < nregs; i++) cc.mov(regs[i], regs[i - 1]);
  x86::Vec v = cc.new_xmm("v");
  cc.pxor(v, v);
  for (const Op& op : plan.ops) {
    const x86::Gp& a = regs[size_t(op.a[0]) % nregs];
    const x86::Gp& b = regs[size_t(op.a[1]) % nregs];
    uint32_t bad_id = uint32_t(Operand::kVirtIdMin + nregs + 1 + uint32_t(op.a[2] % 5000));
    switch (op.kind) {
      case kVirtValid: cc.add(a, b); break;
      case kVirtBadId: if (include_invalid) { cc.emit(x86::Inst::kIdAdd, a, Reg::from_type_and_id(RegType::kGp64, bad_id)); *had_invalid = true; } break;
      // The id of a general-purpose virtual register inside an operand that claims to be an XMM register: the id exists,
      // only its use is inconsistent; the allocator may accept it (it goes by the virtual register's own type) or refuse
      // it, but it must not misbehave. It does not count as "must fail".
      case kVirtWrongGroup: if (include_invalid) { cc.emit(x86::Inst::kIdPaddd, v, Reg::from_type_and_id(RegType::kVec128, a.id())); *may_fail = true; } break;
      case kVirtBadMemBase: if (include_invalid) { x86::Mem m = x86::qword_ptr(a); m.set_base(Reg::from_type_and_id(RegType::kGp64, bad_id)); cc.emit(x86::Inst::kIdMov, b, m); *had_invalid = true; } break;
      case kVirtBadMemIndex: if (include_invalid) { x86::Mem m = x86::qword_ptr(a, b, 1); m.set_index(Reg::from_type_and_id(RegType::kGp64, bad_id), 1); cc.emit(x86::Inst::kIdMov, b, m); *had_invalid = true; } break;
      default: break;
    }
  }
  cc.ret(regs[0]);
  cc.end_func();
  *result = cc.finalize();
  return gen::snapshot(code);
}

void execute_virt(const Plan& plan) {
  sim::heap::configure(int(plan.get("junk", 0)), 0, 0, plan.seed);
  sim::heap::arm(true);
  sim::begin_op(Op(), 0);
  std::string recycled, fresh;
  {
    CodeHolder code; gen::RecordingHandler eh;
    SIM_CHECK(code.init(Environment(Arch::kX64)) == Error::kOk, "c14:setup", "init failed");
    x86::Compiler cc(&code);
    if (plan.get("handler", 0)) cc.set_error_handler(&eh);
    Error err; bool had_invalid, may_fail;
    compile_virt(plan, true, code, cc, &err, &had_invalid, &may_fail);
    sim::logf("compile with invalid=%d -> err=%u", int(had_invalid), unsigned(err));
    if (had_invalid) { SIM_CHECK(err != Error::kOk, "c14:invalid-virtual-register-accepted", "a function that uses an invalid virtual register was compiled without an error"); sim::mark_nontrivial(); }
    else if (!may_fail) SIM_CHECK(err == Error::kOk, "c14:valid-function-rejected", "a valid function failed to compile with error %u", unsigned(err));
    // the same objects, reset, must behave like fresh ones for the valid-only function
    code.reset(ResetPolicy::kSoft);
    SIM_CHECK(code.init(Environment(Arch::kX64)) == Error::kOk && code.attach(&cc) == Error::kOk, "c14:setup", "re-init failed");
    Error err2; bool hi2, mf2;
    recycled = compile_virt(plan, false, code, cc, &err2, &hi2, &mf2);
    SIM_CHECK(err2 == Error::kOk, "c14:valid-function-rejected", "after a failed compilation the same Compiler fails to compile a valid function (error %u)", unsigned(err2));
  }
  {
    CodeHolder code;
    SIM_CHECK(code.init(Environment(Arch::kX64)) == Error::kOk, "c14:setup", "init failed");
    x86::Compiler cc(&code);
    Error err; bool hi, mf;
    fresh = compile_virt(plan, false, code, cc, &err, &hi, &mf);
    SIM_CHECK(err == Error::kOk, "c14:valid-function-rejected", "fresh compile failed %u", unsigned(err));
  }
  SIM_CHECK(recycled == fresh, "c14:differs-from-fresh-emitter", "after a failed compilation the Compiler produces different code for a valid function than a fresh Compiler");
  sim::end_op();
  sim::add_steps(plan.ops.size());
  sim::heap::arm(false);
  SIM_CHECK(sim::heap::live_blocks_this_run() == 0, "c14:leak", "%zu heap block(s) left", sim::heap::live_blocks_this_run());
}

Plan generate_virt(uint64_t seed, bool thorough) {
  Plan p;
  Rng cfg = sim::stream(seed, "cfg");
  Rng r = sim::stream(seed, "plan");
  p.set("nregs", int64_t(2 + cfg.below(thorough ? 30 : 12)));
  p.set("handler", int64_t(cfg.below(2)));
  p.set("junk", int64_t(cfg.below(4)));
  size_t n = size_t(1 + r.below(thorough ? 40 : 16));
  bool any_invalid = cfg.chance(4, 5);
  for (size_t i = 0; i < n; i++) {
    Op op;
    op.kind = (any_invalid && r.chance(1, 5)) ? uint16_t(kVirtBadId + r.below(4)) : uint16_t(kVirtValid);
    op.a[0] = int64_t(r.below(1000)); op.a[1] = int64_t(r.below(1000)); op.a[2] = int64_t(r.below(100000));
    p.ops.push_back(op);
  }
  return p;
}

const char* op_name_virt(uint16_t k) { static const char* const n[] = {"valid_add", "bad_virt_id", "wrong_register_group", "bad_virt_mem_base", "bad_virt_mem_index"}; return k >= kVirtValid && k <= kVirtBadMemIndex ? n[k - kVirtValid] : op_name(k); }

void warmup_forms() { (void)gen::a64_forms(); }
struct WarmForms { WarmForms() { sim::register_warmup(warmup_forms); } } warm_forms;

const sim::Scenario kScenario = {"C14", "invalid-calls", "asan", 250000, 5000000, generate, execute, op_name, shrink, nullptr};
const sim::Scenario kVirt = {"C14", "compiler-virt-regs", "asan", 20000, 400000, generate_virt, execute_virt, op_name_virt, nullptr, nullptr};
sim::Registrar reg(kScenario), reg2(kVirt);

const char* const kAssumptions[] = {
  "Whether a call that SUCCEEDED was encoded correctly is C01/C02, not this property; here a successful call only has to be reproducible on a fresh emitter.",
  "Operands are built through public constructors and setters only (Reg::from_type_and_id for every register type and id, Mem setters for base/index/shift/segment/size/broadcast/address type, Label ids valid, unbound, bound and out of range, Imm); raw signature bit patterns that no setter can produce are not generated.",
  "'Exactly one' error handler invocation per failed call is counted as a probe, not demanded; at least one is demanded for instruction calls.",
  nullptr};
const char* const kReal[] = {"asmjit x86::Assembler/Builder/Compiler (x86-32 and x86-64, strict validation on), a64::Assembler/Builder/Compiler, CodeHolder, InstAPI::validate, formatter and logger failure path (built from /repo)", nullptr};
const char* const kStub[] = {"SimHeap junk fill / realloc policy, H4 code buffer capacity; the error handler (none / recording / throwing) is the injected 'fault'", nullptr};
const sim::PropInfo kInfo = {"C14", "exploration",
  "Each run is one seed: target (x86-32, x86-64, AArch64), emitter (Assembler, Builder, Compiler), error handler mode (none, recording, throwing), a generated valid program of 5..65 calls and, interleaved with it, invalid calls: on x86 arbitrary (instruction id incl. out of range, option bits, extra register, 0..6 operands of any register type/id, memory form, label incl. out-of-range ids, immediate) with strict validation on; on AArch64 one of the ~4000 instruction forms harvested from the repository's own assembler test (asmjit_test_assembler_a64.cpp compiled into the harness against a shadowed tester header, recorded through an a64::Builder) with the operand kinds kept and register ids, element types and indices, memory base/index ids, offsets, shifts, extends, offset modes, immediates, shift/extend predicates and label ids re-drawn - an independent table of architectural constraints (register id ranges, shift amounts, bit indices, bit fields, nzcv, 16-bit immediates, element indices) says which of these calls must fail; on both bind/align/embed_label/embed_label_delta/section/named-label/embed_data_array calls with invalid arguments. "
  "Scenario 'compiler-virt-regs' mixes instructions with arbitrary virtual register ids (beyond the registers created, of another register group, as memory base/index) into a valid x86-64 Compiler function: finalize() must report an error, and the same Compiler, reset, must then compile the valid function exactly like a fresh one. Oracles: no sanitizer report; a call that reports an error (return value or handler, including a throwing handler) leaves section bytes and sizes, label/bound/fixup/relocation/section/node counts unchanged and the one-shot state cleared; a call that references a label id beyond the label count must fail; at the end sections, labels and relocations (after finalize() for Builder/Compiler) equal those of a fresh emitter given only the calls that succeeded. Non-trivial = at least one call failed; distinct = distinct event-log hashes.",
  kAssumptions, kReal, kStub};
sim::PropInfoRegistrar reginfo(kInfo);

} // namespace
