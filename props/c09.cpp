// C09 - JitAllocator never hands out overlapping, misaligned or corrupted memory.
//
// Real JitAllocator (bit vectors, pools, RB-tree) over SimVM + SimHeap, single simulated thread, against the interval
// reference model in jitmodel.h.
#include "sim/sim.h"
#include "props/jitmodel.h"

#include <asmjit/core.h>

#include <string.h>
#include <algorithm>
#include <memory>
#include <vector>

using namespace asmjit;
using sim::Op;
using sim::Plan;
using sim::Rng;

namespace {

enum OpKind : uint16_t {
  kAlloc, kRelease, kShrink, kQueryLive, kQueryForeign, kQueryReleased, kReleaseForeign, kWrite, kWriteFn, kBadWrite, kStats,
  kReset, kRecreate, kReallocSame, kReleaseAll, kFillTail, kOpCount
};
const char* const kOpNames[kOpCount] = {
  "alloc", "release", "shrink", "query_live", "query_foreign", "query_released", "release_foreign", "write", "write_fn", "bad_write", "stats",
  "reset", "recreate", "realloc_same", "release_all", "fill_tail"
};
const char* op_name(uint16_t k) { return k < kOpCount ? kOpNames[k] : "?"; }

struct Held { JitAllocator::Span span; uintptr_t rx; };

struct World {
  const Plan& plan;
  jitmodel::Model model;
  std::unique_ptr<JitAllocator> alloc;
  std::vector<Held> held;
  std::vector<uintptr_t> released_starts;
  uint64_t stamp_counter = 1;
  explicit World(const Plan& p) : plan(p) {}
};

void create_allocator(World& w, const Op* op_with_faults) {
  JitAllocator::CreateParams params;
  params.options = w.model.cfg.requested_options;
  params.block_size = w.model.cfg.requested_block_size;
  params.granularity = w.model.cfg.requested_granularity;
  params.fill_pattern = w.model.cfg.requested_pattern;
  uint64_t mallocs_failed_before = sim::run_fault_fired_count(sim::kFaultMalloc);
  (void)op_with_faults;
  bool use_null_params = w.plan.get("null_params", 0) != 0;
  w.alloc.reset(use_null_params ? new JitAllocator(nullptr) : new JitAllocator(&params));
  w.model.cfg.constructed = sim::run_fault_fired_count(sim::kFaultMalloc) == mallocs_failed_before;
  bool init = w.alloc->is_initialized();
  sim::logf("create options=%#x block=%u gran=%u constructed=%d is_initialized=%d", unsigned(params.options), params.block_size, params.granularity, int(w.model.cfg.constructed), int(init));
  SIM_CHECK(init == w.model.cfg.constructed, "c09:is-initialized", "is_initialized() returns %d for an allocator whose construction %s", int(init), w.model.cfg.constructed ? "succeeded" : "failed");
  if (w.model.cfg.constructed) {
    SIM_CHECK(w.alloc->granularity() == w.model.cfg.granularity, "c09:config", "granularity() is %u, expected %u", w.alloc->granularity(), w.model.cfg.granularity);
    SIM_CHECK(w.alloc->block_size() == w.model.cfg.block_size, "c09:config", "block_size() is %u, expected %u", w.alloc->block_size(), w.model.cfg.block_size);
    SIM_CHECK(w.alloc->has_option(JitAllocatorOptions::kUseDualMapping) == w.model.cfg.dual, "c09:config", "dual mapping option is %d, expected %d", int(w.alloc->has_option(JitAllocatorOptions::kUseDualMapping)), int(w.model.cfg.dual));
    if (w.model.cfg.fill) SIM_CHECK(w.alloc->fill_pattern() == w.model.cfg.pattern, "c09:config", "fill_pattern() is %#x, expected %#x", w.alloc->fill_pattern(), w.model.cfg.pattern);
  }
}

void check_all_stamps(World& w, const char* when) {
  for (auto& kv : w.model.live) jitmodel::check_stamp(kv.second, w.model.cfg.granularity, "c09", when);
}

void check_neighbours(World& w, uintptr_t rx, const char* when) {
  auto it = w.model.live.lower_bound(rx);
  if (it != w.model.live.end()) { jitmodel::check_stamp(it->second, w.model.cfg.granularity, "c09", when); auto n = it; ++n; if (n != w.model.live.end()) jitmodel::check_stamp(n->second, w.model.cfg.granularity, "c09", when); }
  if (it != w.model.live.begin()) { --it; jitmodel::check_stamp(it->second, w.model.cfg.granularity, "c09", when); }
}

void check_stats(World& w, const char* when) {
  JitAllocator::Statistics st = w.alloc->statistics();
  if (!w.model.cfg.constructed) {
    SIM_CHECK(st.block_count() == 0 && st.allocation_count() == 0 && st.used_size() == 0 && st.reserved_size() == 0, "c09:stats-uninitialized", "statistics of an uninitialised allocator are not zero");
    return;
  }
  w.model.check_statistics(st, when);
}

size_t held_index(World& w, int64_t a) { return size_t(a) % w.held.size(); }

void drop_held(World& w, size_t i) {
  w.released_starts.push_back(w.held[i].rx);
  if (w.released_starts.size() > 32) w.released_starts.erase(w.released_starts.begin());
  w.held.erase(w.held.begin() + long(i));
}

// Whether some existing block still has `size` bytes (rounded up to the granularity) of contiguous memory outside of every
// live span and of the initial padding: released or shrunk-away memory is reusable, so such a request needs no new block.
// (Single-pool allocators only: with several pools the request is served by the pool its size selects.)
static bool fits_in_existing_block(World& w, size_t size) {
  const jitmodel::Cfg& cfg = w.model.cfg;
  if (cfg.pool_count != 1 || size == 0) return false;
  size_t g = cfg.granularity, need = (size + g - 1) / g * g;
  for (auto& kv : w.model.blocks) {
    const jitmodel::Block& b = kv.second;
    uintptr_t cursor = b.rx + (b.padding_known ? (b.padding + g - 1) / g * g : (cfg.padding ? g : 0)), end = b.rx + b.size;
    for (auto it = w.model.live.lower_bound(b.rx); it != w.model.live.end() && it->first < end; ++it) {
      if (it->first > cursor && it->first - cursor >= need) return true;
      uintptr_t span_end = it->first + (it->second.size + g - 1) / g * g;
      if (span_end > cursor) cursor = span_end;
    }
    if (end > cursor && end - cursor >= need) return true;
  }
  return false;
}

void do_alloc(World& w, size_t size, bool via_write) {
  JitAllocator::Span span;
  bool fitted = fits_in_existing_block(w, size);
  uint64_t created_before = w.model.blocks_created, fired_before = sim::run_faults_fired_total();
  size_t maps_before = sim::vm::mappings_this_run().size();
  size_t live_before = w.model.live.size();
  Error err = w.alloc->alloc(Out(span), size);
  sim::logf("alloc %zu -> err=%u rx=%#zx size=%zu", size, unsigned(err), size_t(uintptr_t(span.rx())), span.size());
  if (!w.model.cfg.constructed) { SIM_CHECK(err != Error::kOk, "c09:uninitialized-alloc", "alloc() on an uninitialised allocator succeeded"); return; }
  if (size == 0 || size > 0x7fffffffu) {
    SIM_CHECK(err != Error::kOk, "c09:bad-size-accepted", "alloc(%zu) succeeded", size);
    return;
  }
  if (err != Error::kOk) {
    SIM_CHECK(sim::run_faults_fired_total() > 0, "c09:alloc-failed", "alloc(%zu) failed with error %u although no fault was injected", size, unsigned(err));
    SIM_CHECK(span.rx() == nullptr && span.size() == 0, "c09:failed-alloc-span", "failed alloc() returned a non-empty span");
    // a failed alloc must not leave a mapping behind (excused only by an injected munmap failure)
    size_t excused = 0; for (auto& m : sim::vm::mappings_this_run()) if (m.excused) excused++;
    SIM_CHECK(sim::vm::mappings_this_run().size() - excused <= maps_before, "c09:failed-alloc-leaks-mapping", "alloc(%zu) failed but left %zu new mapping(s) behind", size, sim::vm::mappings_this_run().size() - maps_before);
    SIM_CHECK(w.model.live.size() == live_before, "c09:model", "model changed");
    sim::count("c09.probe.alloc_failed_under_fault");
    return;
  }
  uint64_t stamp = (w.stamp_counter++) << 32;
  w.model.alloc_ok(size, span, stamp);
  jitmodel::SpanInfo& info = w.model.live[uintptr_t(span.rx())];
  if (fitted) {
    sim::count("c09.probe.request_fits_existing_block");
    if (sim::run_faults_fired_total() == fired_before)
      SIM_CHECK(w.model.blocks_created == created_before, "c09:released-memory-not-reused", "alloc(%zu) mapped a new block although an existing block had that much contiguous free memory (released or shrunk-away memory was not found again)", size);
  }
  if (via_write) {
    // fill through the allocator's write API in pieces
    std::vector<uint8_t> img(info.size, 0);
    for (size_t off = 0; off + 8 <= info.size; off += w.model.cfg.granularity) { uint64_t v = stamp + off; memcpy(img.data() + off, &v, 8); }
    size_t half = info.size / 2;
    Error e1 = w.alloc->write(span, 0, img.data(), half);
    Error e2 = w.alloc->write(span, half, img.data() + half, info.size - half);
    SIM_CHECK(e1 == Error::kOk && e2 == Error::kOk, "c09:write-failed", "write() into a fresh span failed (%u, %u)", unsigned(e1), unsigned(e2));
  }
  else jitmodel::write_stamp(info, w.model.cfg.granularity);
  jitmodel::check_stamp(info, w.model.cfg.granularity, "c09", "after alloc (rw/rx aliasing)");
  check_neighbours(w, info.rx, "after alloc");
  w.held.push_back(Held{span, uintptr_t(span.rx())});
  if (w.model.blocks.size() >= 2) sim::count("c09.probe.second_block");
  if (size > w.model.cfg.block_size) sim::count("c09.probe.alloc_larger_than_block");
}

void do_release(World& w, size_t i) {
  Held h = w.held[i];
  jitmodel::SpanInfo info = w.model.live[h.rx];
  jitmodel::check_stamp(info, w.model.cfg.granularity, "c09", "before release");
  uint64_t deleted_before = w.model.blocks_deleted;
  // The model must not consider the span live when its block goes away.
  w.model.released(h.rx);
  Error err = w.alloc->release(h.span.rx());
  sim::logf("release %#zx (+%zu) -> err=%u", size_t(h.rx), info.size, unsigned(err));
  SIM_CHECK(err == Error::kOk, "c09:release-failed", "release() of a live span failed with error %u", unsigned(err));
  if (w.model.blocks_deleted != deleted_before) sim::count("c09.probe.block_deleted");
  drop_held(w, i);
  check_neighbours(w, h.rx, "after release");
  if (w.model.live.empty()) { w.model.check_empty_policy("after releasing every span", false); sim::count("c09.probe.all_released"); }
}

uintptr_t foreign_pointer(World& w, int64_t kind) {
  static int dummy;
  switch (kind % 6) {
    case 5: {   // inside the initial padding of a block: memory of the allocator, but not an allocation
      if (w.model.blocks.empty()) return 0x3000;
      auto it = w.model.blocks.begin(); std::advance(it, long(size_t(kind / 6) % w.model.blocks.size()));
      if (!it->second.padding_known || it->second.padding == 0) return 0x3000;
      sim::count("c09.probe.pointer_into_padding");
      return it->second.rx + uintptr_t(kind / 7) % it->second.padding;
    }
    case 0: return 0;
    case 1: return uintptr_t(&dummy);
    case 2: { if (w.model.blocks.empty()) return 0x1000; uintptr_t p = w.model.blocks.begin()->second.rx - 64; return w.model.block_of(p) ? 0x1000 : p; }
    case 3: {   // one past the end of a block (== start of the next one when blocks are adjacent -> then skip)
      if (w.model.blocks.empty()) return 0x2000;
      auto it = w.model.blocks.begin(); std::advance(it, long(size_t(kind / 6) % w.model.blocks.size()));
      uintptr_t p = it->second.rx + it->second.size;
      if (w.model.block_of(p)) { sim::count("c09.probe.adjacent_blocks"); return 0x2000; }
      return p;
    }
    default: return uintptr_t(&w);
  }
}

void exec_op(World& w, const Op& op) {
  JitAllocator& a = *w.alloc;
  bool inited = w.model.cfg.constructed;
  switch (op.kind) {
    case kAlloc: {
      // (one request in a hundred is absurdly large - within a granule of SIZE_MAX, where rounding up wraps to zero, or beyond
      // what any block can hold: all refused)
      static const uint64_t huge[] = {~uint64_t(0), ~uint64_t(0) - 1, ~uint64_t(0) - 63, ~uint64_t(0) - 255, uint64_t(1) << 63, (uint64_t(1) << 32) + 64, uint64_t(0xFFFFFFFFu)};
      if ((op.a[1] % 101) == 7) { size_t hs = size_t(huge[size_t(op.a[2]) % 7] - (op.a[2] % 2 ? 0 : uint64_t(op.a[2]) % w.model.cfg.granularity)); if (hs > 0x7fffffffu) { sim::count("c09.probe.absurd_request_size"); do_alloc(w, hs, false); check_stats(w, "after a refused request"); break; } }
      do_alloc(w, size_t(op.a[0]), (op.a[1] & 3) == 0 && op.a[0] < 100000);
      break;
    }
    case kRelease: if (!w.held.empty()) do_release(w, held_index(w, op.a[0])); break;
    case kReleaseAll: while (!w.held.empty()) do_release(w, size_t(op.a[0]) % w.held.size()); break;
    case kFillTail: {
      // A motif random sizes practically never produce: the block of the newest span is filled to its very last granule,
      // the span at its end is shrunk, (sometimes) another span is released, and then memory is requested that the
      // shrunk-away tail can hold - it must be found again (c09:released-memory-not-reused in do_alloc).
      if (!inited || w.held.empty()) break;
      const jitmodel::Block* b = w.model.block_of(w.held.back().rx);
      if (!b) break;
      size_t g = w.model.cfg.granularity;
      uintptr_t end = b->rx + b->size, top = b->rx;
      for (auto it = w.model.live.lower_bound(b->rx); it != w.model.live.end() && it->first < end; ++it) top = it->first + (it->second.size + g - 1) / g * g;
      if (top <= b->rx || top >= end || end - top > (size_t(1) << 20)) break;
      size_t tail = size_t(end - top), held_before = w.held.size();
      do_alloc(w, tail, false);
      if (w.held.size() != held_before + 1) break;
      if (w.held.back().rx + tail == end) sim::count("c09.probe.block_filled_to_its_end");
      if (tail > g) { Op sh; sh.kind = kShrink; sh.a[0] = int64_t(w.held.size() - 1); sh.a[1] = 5; sh.a[2] = op.a[1]; exec_op(w, sh); }
      if ((op.a[2] & 1) && w.held.size() > 1) do_release(w, size_t(op.a[0]) % (w.held.size() - 1));
      do_alloc(w, 1 + size_t(op.a[2] >> 1) % tail, false);
      break;
    }
    case kReallocSame: {
      if (w.held.empty()) break;
      size_t i = held_index(w, op.a[0]);
      size_t size = w.model.live[w.held[i].rx].size;
      // A span that was shrunk may live in a pool that a fresh request of its new size would not select.
      bool same_pool_expected = !w.model.live[w.held[i].rx].was_shrunk;
      uint64_t deleted_before = w.model.blocks_deleted, created_before = w.model.blocks_created;
      do_release(w, i);
      bool block_gone = w.model.blocks_deleted != deleted_before;
      uint64_t fired = sim::run_faults_fired_total();
      do_alloc(w, size, false);
      // Released memory is reusable: allocating the same size again needs no new block unless the release dropped one.
      if (!block_gone && same_pool_expected && sim::run_faults_fired_total() == fired)
        SIM_CHECK(w.model.blocks_created == created_before, "c09:released-memory-not-reused", "release(%zu bytes) followed by alloc(%zu) mapped a new block although the old one was kept", size, size);
      break;
    }
    case kShrink: {
      if (w.held.empty()) break;
      size_t i = held_index(w, op.a[0]);
      Held& h = w.held[i];
      jitmodel::SpanInfo info = w.model.live[h.rx];
      size_t new_size;
      switch (op.a[1] % 6) { case 0: new_size = 0; break; case 1: new_size = 1; break; case 2: new_size = info.size; break; case 3: new_size = info.size + 1 + size_t(op.a[2] % 4096); break; case 4: new_size = info.size > w.model.cfg.granularity ? info.size - w.model.cfg.granularity : info.size; break; default: new_size = 1 + size_t(op.a[2]) % info.size; break; }
      if (new_size == 0) {
        w.model.released(h.rx);
        Error err = a.shrink(h.span, 0);
        sim::logf("shrink %#zx to 0 -> err=%u", size_t(h.rx), unsigned(err));
        SIM_CHECK(err == Error::kOk, "c09:shrink-failed", "shrink(span, 0) failed with error %u", unsigned(err));
        SIM_CHECK(h.span.rx() == nullptr && h.span.size() == 0, "c09:shrink-zero-span", "shrink(span, 0) did not reset the span");
        drop_held(w, i);
        break;
      }
      Error err = a.shrink(h.span, new_size);
      sim::logf("shrink %#zx (+%zu) to %zu -> err=%u size=%zu", size_t(h.rx), info.size, new_size, unsigned(err), h.span.size());
      if (new_size > info.size) {
        // Growing is impossible; either an error or (when the request still fits the last granule) an unchanged span.
        if (err == Error::kOk) SIM_CHECK(h.span.size() >= new_size || h.span.size() == info.size, "c09:shrink-grew", "shrink() to a larger size (%zu > %zu) reports %zu", new_size, info.size, h.span.size());
        SIM_CHECK(h.span.size() == info.size, "c09:shrink-grew", "a shrink() request larger than the span changed its size from %zu to %zu", info.size, h.span.size());
        break;
      }
      SIM_CHECK(err == Error::kOk, "c09:shrink-failed", "shrink(%zu -> %zu) failed with error %u", info.size, new_size, unsigned(err));
      SIM_CHECK(uintptr_t(h.span.rx()) == h.rx, "c09:shrink-moved", "shrink() changed the span's address");
      w.model.shrunk(h.rx, new_size, h.span.size());
      // the prefix keeps its contents
      jitmodel::check_stamp(w.model.live[h.rx], w.model.cfg.granularity, "c09", "after shrink (prefix)");
      if (h.span.size() < info.size) sim::count("c09.probe.shrunk");
      check_neighbours(w, h.rx, "after shrink");
      break;
    }
    case kQueryLive: {
      if (w.held.empty()) break;
      Held& h = w.held[held_index(w, op.a[0])];
      const jitmodel::SpanInfo& info = w.model.live[h.rx];
      JitAllocator::Span q;
      // query() is documented to find the allocation that CONTAINS the pointer: half of the queries use a pointer somewhere
      // inside the span instead of its start
      size_t inside = (op.a[1] & 1) ? size_t(op.a[2]) % info.size : 0;
      if (inside) sim::count("c09.probe.query_interior_pointer");
      Error err = a.query(Out(q), reinterpret_cast<void*>(h.rx + inside));
      SIM_CHECK(err == Error::kOk, "c09:query-failed", "query() of a pointer %zu bytes into a live span of %zu bytes failed with error %u", inside, info.size, unsigned(err));
      SIM_CHECK(uintptr_t(q.rx()) == info.rx && uintptr_t(q.rw()) == info.rw && q.size() == info.size, "c09:query-mismatch",
                "query(%#zx) returned rx=%#zx rw=%#zx size=%zu, expected rx=%#zx rw=%#zx size=%zu", size_t(h.rx + inside), size_t(uintptr_t(q.rx())), size_t(uintptr_t(q.rw())), q.size(), size_t(info.rx), size_t(info.rw), info.size);
      break;
    }
    case kQueryForeign: case kReleaseForeign: {
      uintptr_t p = foreign_pointer(w, op.a[0]);
      if (w.model.block_of(p)) break;
      if (op.kind == kQueryForeign) {
        JitAllocator::Span q;
        Error err = a.query(Out(q), reinterpret_cast<void*>(p));
        SIM_CHECK(err != Error::kOk, "c09:foreign-pointer-accepted", "query(%#zx) of a pointer that is not inside any allocation succeeded", size_t(p));
        SIM_CHECK(q.rx() == nullptr, "c09:foreign-pointer-accepted", "failed query() returned a span");
      }
      else {
        Error err = a.release(reinterpret_cast<void*>(p));
        SIM_CHECK(err != Error::kOk, "c09:foreign-pointer-accepted", "release(%#zx) of a pointer that is not inside any allocation succeeded", size_t(p));
      }
      sim::logf("%s kind=%d rejected", op_name(op.kind), int(op.a[0] % 5));
      break;
    }
    case kQueryReleased: {
      if (w.released_starts.empty() || !inited) break;
      uintptr_t p = w.released_starts[size_t(op.a[0]) % w.released_starts.size()];
      if (!w.model.block_of(p)) break;                        // block is gone: covered by query_foreign
      // skip if the address is (again) inside a live span
      auto it = w.model.live.upper_bound(p);
      if (it != w.model.live.begin()) { --it; if (p < it->first + it->second.size) break; }
      JitAllocator::Span q;
      Error err = a.query(Out(q), reinterpret_cast<void*>(p));
      SIM_CHECK(err != Error::kOk, "c09:stale-pointer-accepted", "query(%#zx) of a released span start succeeded (size %zu)", size_t(p), q.size());
      sim::count("c09.probe.query_released");
      // releasing it a second time must be refused as well (it would free whatever follows up to the next span end)
      err = a.release(reinterpret_cast<void*>(p));
      SIM_CHECK(err != Error::kOk, "c09:stale-pointer-accepted", "release(%#zx) of an already released span start succeeded", size_t(p));
      w.model.check_statistics(a.statistics(), "after a refused double release");
      break;
    }
    case kWrite: {
      if (w.held.empty()) break;
      Held& h = w.held[held_index(w, op.a[0])];
      jitmodel::SpanInfo& info = w.model.live[h.rx];
      // rewrite the whole stamp with a new value through write(offset, ...) in two chunks at a drawn split point
      uint64_t stamp = (w.stamp_counter++) << 32;
      std::vector<uint8_t> img(info.size, 0x5A);
      for (size_t off = 0; off + 8 <= info.size; off += w.model.cfg.granularity) { uint64_t v = stamp + off; memcpy(img.data() + off, &v, 8); }
      size_t split = size_t(op.a[1]) % (info.size + 1);
      Error e1 = a.write(h.span, 0, img.data(), split);
      Error e2 = a.write(h.span, split, img.data() + split, info.size - split);
      SIM_CHECK(e1 == Error::kOk && e2 == Error::kOk, "c09:write-failed", "write() inside the span failed (%u, %u)", unsigned(e1), unsigned(e2));
      info.stamp = stamp;
      SIM_CHECK(memcmp(reinterpret_cast<void*>(info.rx), img.data(), info.size) == 0, "c09:write-content", "bytes read through rx differ from what write() was given");
      check_neighbours(w, h.rx, "after write");
      break;
    }
    case kBadWrite: {
      if (w.held.empty()) break;
      Held& h = w.held[held_index(w, op.a[0])];
      jitmodel::SpanInfo& info = w.model.live[h.rx];
      uint8_t junk[64]; memset(junk, 0xEE, sizeof junk);
      Error err;
      switch (uint64_t(op.a[1]) % 9) {
        case 5: { JitAllocator::Span c = h.span; err = a.shrink(c, info.size + 1); break; }                      // "shrinking" to a larger size
        case 6: { JitAllocator::Span c = h.span; err = a.shrink(c, SIZE_MAX - size_t(uint64_t(op.a[2]) % 256)); break; }   // size conversions must not wrap
        case 7: { JitAllocator::Span c = h.span; err = a.shrink(c, (size_t(1) << 38) + 64); break; }
        case 8: {                                                                                                // a pointer into the middle of the span is not an allocation
          // (with multiple pools the span's pool may use up to four times the base granularity: stay clear of its first area)
          size_t gran = size_t(w.model.cfg.granularity) * 4;
          if (info.size < 2 * gran) { err = make_error(Error::kInvalidArgument); break; }
          err = a.release(reinterpret_cast<void*>(h.rx + gran * (1 + size_t(uint64_t(op.a[2]) % (info.size / gran - 1)))));
          break;
        }
        case 0: err = a.write(h.span, info.size + 1, junk, 1); break;              // offset past the end
        case 1: err = a.write(h.span, info.size - 8, junk, 16); break;             // range crosses the end
        case 2: err = a.write(h.span, SIZE_MAX - 7, junk, 16); break;              // offset + size wraps around to a small value
        case 3: err = a.write(h.span, SIZE_MAX - size_t(uint64_t(op.a[2]) % 64), junk, 1 + size_t(uint64_t(op.a[2]) % 64)); break;   // wraps to exactly 0
        default: err = a.write(h.span, size_t(uint64_t(op.a[2]) % info.size), junk, SIZE_MAX - 3); break;   // huge size
      }
      SIM_CHECK(err != Error::kOk, "c09:bad-write-accepted", "a write() outside the span, a shrink() to a larger size or a release() of an interior pointer succeeded (variant %llu)", (unsigned long long)(uint64_t(op.a[1]) % 9));
      jitmodel::check_stamp(info, w.model.cfg.granularity, "c09", "after rejected write");
      check_neighbours(w, h.rx, "after rejected write");
      break;
    }
    case kWriteFn: {
      if (w.held.empty()) break;
      size_t i = held_index(w, op.a[0]);
      Held& h = w.held[i];
      jitmodel::SpanInfo& info = w.model.live[h.rx];
      size_t old = info.size;
      size_t truncate_to = (op.a[1] & 1) ? ((op.a[1] >> 1) % 8 == 0 ? size_t(0) : 1 + size_t(op.a[2]) % old) : old;
      uint64_t stamp = (w.stamp_counter++) << 32;
      uint32_t gran = w.model.cfg.granularity;
      if (truncate_to == 0) {
        // Span::shrink(0) inside the callback: nothing is kept - the same as JitAllocator::shrink(span, 0), which releases
        uintptr_t rx = h.rx;
        w.model.released(rx);
        Error err = a.write(h.span, [&](JitAllocator::Span& s) noexcept -> Error { memset(s.rw(), 0x90, s.size()); s.shrink(0); return Error::kOk; });
        sim::logf("write_fn %#zx (+%zu) truncate=0 -> err=%u size=%zu", size_t(rx), old, unsigned(err), h.span.size());
        SIM_CHECK(err == Error::kOk, "c09:write-fn-failed", "write(fn) whose callback shrinks the span to 0 failed with error %u", unsigned(err));
        JitAllocator::Span q;
        SIM_CHECK(a.query(Out(q), reinterpret_cast<void*>(rx)) != Error::kOk, "c09:write-fn-shrink-zero", "after write(fn) shrank the span to 0 bytes its start is still a live allocation of %zu bytes", q.size());
        drop_held(w, i);
        sim::count("c09.probe.write_fn_truncated_to_zero");
        check_stats(w, "after write(fn) shrank a span to 0");
        if (w.model.live.empty()) w.model.check_empty_policy("after write(fn) released the last span", false);
        break;
      }
      Error err = a.write(h.span, [&](JitAllocator::Span& s) noexcept -> Error {
        uint8_t* p = static_cast<uint8_t*>(s.rw());
        for (size_t off = 0; off + 8 <= s.size(); off += gran) { uint64_t v = stamp + off; memcpy(p + off, &v, 8); }
        if (truncate_to != old) s.shrink(truncate_to);
        return Error::kOk;
      });
      sim::logf("write_fn %#zx (+%zu) truncate=%zu -> err=%u size=%zu", size_t(h.rx), old, truncate_to, unsigned(err), h.span.size());
      SIM_CHECK(err == Error::kOk, "c09:write-fn-failed", "write(fn) failed with error %u", unsigned(err));
      info.stamp = stamp;
      if (truncate_to != old) { w.model.shrunk(h.rx, truncate_to, h.span.size()); sim::count("c09.probe.write_fn_truncated"); }
      else SIM_CHECK(h.span.size() == old, "c09:write-fn-size", "write(fn) without truncation changed the span size");
      jitmodel::check_stamp(w.model.live[h.rx], gran, "c09", "after write(fn)");
      check_neighbours(w, h.rx, "after write(fn)");
      break;
    }
    case kStats: check_stats(w, "statistics()"); break;
    case kReset: {
      bool hard = op.a[0] & 1;
      check_all_stamps(w, "before reset");
      w.model.live.clear();
      for (auto& h : w.held) w.released_starts.push_back(h.rx);
      w.held.clear();
      if (w.released_starts.size() > 32) w.released_starts.erase(w.released_starts.begin(), w.released_starts.end() - 32);
      a.reset(hard ? ResetPolicy::kHard : ResetPolicy::kSoft);
      sim::logf("reset %s -> %zu blocks", hard ? "hard" : "soft", w.model.blocks.size());
      sim::count(hard ? "c09.probe.reset_hard" : "c09.probe.reset_soft");
      if (inited) {
        w.model.check_empty_policy(hard ? "after reset(hard)" : "after reset(soft)", hard);
        check_stats(w, "after reset");
        w.model.check_fill("after reset");
      }
      break;
    }
    case kRecreate: {
      check_all_stamps(w, "before destruction");
      w.model.live.clear(); w.held.clear(); w.released_starts.clear();
      w.alloc.reset();
      SIM_CHECK(w.model.blocks.empty(), "c09:leak-mapping", "destroying the allocator left %zu block(s) mapped", w.model.blocks.size());
      create_allocator(w, &op);
      break;
    }
    default: break;
  }
}

void execute(const Plan& plan) {
  World w(plan);
  jitmodel::Cfg& cfg = w.model.cfg;
  cfg.requested_options = JitAllocatorOptions(uint32_t(plan.get("options", 0)));
  cfg.requested_block_size = uint32_t(plan.get("block_size", 0));
  cfg.requested_granularity = uint32_t(plan.get("granularity", 0));
  cfg.requested_pattern = uint32_t(plan.get("pattern", 0));
  cfg.derive(sim::vm::profile().hardened != 0);
  if (plan.get("null_params", 0)) { cfg.requested_options = JitAllocatorOptions::kNone; cfg.requested_block_size = 0; cfg.requested_granularity = 0; cfg.derive(sim::vm::profile().hardened != 0); }

  sim::heap::configure(int(plan.get("junk", 0)), 0, int(plan.get("shift", 0)), plan.seed);
  sim::vm::configure(int(plan.get("window", 0)), int(plan.get("policy", 0)), int(plan.get("hugetlb_grant", 0)), plan.seed);
  sim::vm::set_observer(jitmodel::Model::vm_observer, &w.model);
  sim::heap::arm(true);
  sim::vm::arm(true);

  Op create_op; create_op.kind = kRecreate;
  if (plan.get("fail_ctor", 0)) create_op.faults.push_back(sim::Fault{sim::kFaultMalloc, 0, 0});
  sim::begin_op(create_op, 0);
  create_allocator(w, &create_op);
  sim::end_op();

  for (size_t i = 0; i < plan.ops.size(); i++) {
    const Op& op = plan.ops[i];
    sim::begin_op(op, i + 1);
    exec_op(w, op);
    sim::end_op();
    sim::add_steps(1);
    if ((i & 31) == 31) { sim::begin_op(Op(), i + 1); check_all_stamps(w, "periodic check"); check_stats(w, "periodic check"); if (w.model.reserved_bytes() < (8u << 20)) w.model.check_fill("periodic check"); sim::end_op(); }
    if (w.model.live.size() + w.model.blocks_created > 0) sim::mark_nontrivial();
  }

  sim::begin_op(Op(), plan.ops.size() + 1);
  check_all_stamps(w, "final check");
  check_stats(w, "final check");
  w.model.check_fill("final check");
  // Release everything in a drawn order, then the retention policy applies.
  Rng r = sim::stream(plan.seed, "teardown");
  if (plan.get("release_all_at_end", 1)) {
    while (!w.held.empty()) do_release(w, size_t(r.below(w.held.size())));
    if (cfg.constructed) { check_stats(w, "after releasing everything"); w.model.check_fill("after releasing everything"); }
  }
  w.model.live.clear(); w.held.clear();
  w.alloc.reset();
  sim::vm::arm(false);
  sim::heap::arm(false);
  SIM_CHECK(w.model.blocks.empty(), "c09:leak-mapping", "destroying the allocator left %zu block(s) mapped", w.model.blocks.size());
  SIM_CHECK(sim::vm::live_mappings_this_run() == 0 && sim::vm::live_fds_this_run() == 0, "c09:leak-vm", "mappings / descriptors left after destruction:%s", sim::vm::describe_leaks().c_str());
  SIM_CHECK(sim::heap::live_blocks_this_run() == 0, "c09:leak-heap", "%zu heap block(s) left after destruction:%s", sim::heap::live_blocks_this_run(), sim::heap::describe_live_blocks_this_run().c_str());
  sim::end_op();
}

// ---------------------------------------------------------------------------------------------------------------
// Generation
// ---------------------------------------------------------------------------------------------------------------

size_t gen_alloc_size(Rng& r, uint32_t gran, uint32_t block, int bias) {
  switch (bias == 1 ? r.below(4) : bias == 2 ? 4 + r.below(8) : r.below(14)) {
    case 0: return 1;
    case 1: return size_t(1 + r.below(gran));
    case 2: return size_t(gran) * (1 + r.below(4));                    // pool selecting multiples
    case 3: return size_t(gran) * 2 * (1 + r.below(8));
    case 4: return size_t(gran) * 4 * (1 + r.below(8));
    case 5: return size_t(1 + r.below(2000));
    case 6: return size_t(1 + r.below(20000));
    case 7: return size_t(block) - gran * r.below(4);                    // just below / at a block
    case 8: return size_t(block) + 1 + r.below(4096);                    // just above a block
    case 9: return size_t(block) * (2 + r.below(3)) + r.below(1000);     // several blocks
    case 10: return 0;
    case 11: return size_t(0x80000000u) + r.below(1000);                 // > 2^31
    case 12: return size_t(block / 2) + r.below(64);
    default: return size_t(1 + r.below(300));
  }
}

Plan generate_with(uint64_t seed, bool thorough, bool faults_allowed, bool long_history) {
  Plan p;
  Rng cfg = sim::stream(seed, "cfg");
  Rng r = sim::stream(seed, "plan");
  uint32_t options = 0;
  static const uint32_t opt_bits[] = {0x1, 0x2, 0x4, 0x8, 0x10, 0x20, 0x40, 0x10000000u};
  for (uint32_t b : opt_bits) if (cfg.chance(1, 3)) options |= b;
  if (cfg.chance(1, 8)) options = 0;
  p.set("options", options);
  static const int64_t grans[] = {0, 0, 64, 128, 256, 32, 100, 512};
  static const int64_t blocks[] = {0, 0, 65536, 131072, 1048576, 4096, 100000, 65536};
  p.set("granularity", grans[cfg.below(8)]);
  p.set("block_size", blocks[cfg.below(8)]);
  static const int64_t pats[] = {0x11223344, 0x90909090, 0, 0xFFFFFFFFll, 0xA1B2C3D4ll};
  p.set("pattern", pats[cfg.below(5)]);
  p.set("null_params", cfg.chance(1, 16) ? 1 : 0);
  p.set("junk", int64_t(cfg.below(4)));
  p.set("shift", int64_t(cfg.below(4)));
  // placement
  int window = int(cfg.below(sim::vm::kWinCount));
  if (!sim::vm::window_available(window)) window = int(cfg.below(2));
  p.set("window", window);
  p.set("policy", int64_t(cfg.below(sim::vm::kPolicyCount)));
  p.set("hugetlb_grant", int64_t(cfg.below(2)));
  int fault_class = faults_allowed ? int(cfg.below(3)) : 0;
  p.set("fault_class", fault_class);
  p.set("fail_ctor", fault_class && cfg.chance(1, 12) ? 1 : 0);
  p.set("release_all_at_end", cfg.chance(3, 4) ? 1 : 0);

  uint32_t gran = uint32_t(p.get("granularity")); if (gran < 64 || gran > 256 || (gran & (gran - 1))) gran = 64;
  uint32_t block = uint32_t(p.get("block_size")); if (block < 65536 || (block & (block - 1))) block = 65536;
  int bias = int(r.below(3));
  size_t nops = long_history ? size_t(20000 + r.below(80000)) : thorough ? size_t(3 + r.below(r.chance(1, 6) ? 400 : 60)) : size_t(3 + r.below(r.chance(1, 10) ? 200 : 40));
  size_t live_estimate = 0;
  size_t max_live = long_history ? 64 : size_t(4 + r.below(60));
  for (size_t i = 0; i < nops; i++) {
    Op op;
    static const uint16_t ks[] = {kAlloc, kAlloc, kAlloc, kAlloc, kAlloc, kRelease, kRelease, kRelease, kShrink, kShrink, kQueryLive, kQueryForeign, kQueryReleased, kReleaseForeign,
                                  kWrite, kWriteFn, kBadWrite, kStats, kReset, kRecreate, kReallocSame, kReallocSame, kReleaseAll, kFillTail};
    op.kind = r.pick(ks);
    if ((op.kind == kReset || op.kind == kRecreate || op.kind == kReleaseAll) && !r.chance(1, long_history ? 200 : 5)) op.kind = kAlloc;
    if (op.kind == kAlloc && live_estimate >= max_live) op.kind = kRelease;
    if (op.kind == kAlloc) live_estimate++; else if (op.kind == kRelease && live_estimate) live_estimate--; else if (op.kind == kReset || op.kind == kRecreate || op.kind == kReleaseAll) live_estimate = 0;
    op.a[0] = int64_t(op.kind == kAlloc ? gen_alloc_size(r, gran, block, long_history ? 1 + int(r.below(40) == 0) : bias) : r.below(1000000));
    op.a[1] = int64_t(r.below(1000000));
    op.a[2] = int64_t(r.below(1000000));
    if (fault_class && (op.kind == kAlloc || op.kind == kReallocSame || op.kind == kRecreate || op.kind == kRelease || op.kind == kReset)) {
      uint32_t den = fault_class == 1 ? 12 : 3;
      static const int32_t e_mmap[] = {0, 12 /*ENOMEM*/, 13 /*EACCES*/, 22 /*EINVAL*/};
      static const int32_t e_memfd[] = {0, 24 /*EMFILE*/, 12};
      static const int32_t e_trunc[] = {0, 28 /*ENOSPC*/, 27 /*EFBIG*/};
      static const int32_t e_shm[] = {0, 17 /*EEXIST*/, 17, 24};
      if (r.chance(1, den)) op.faults.push_back(sim::Fault{sim::kFaultMmap, uint32_t(r.below(3)), r.pick(e_mmap)});
      if (r.chance(1, den * 2)) op.faults.push_back(sim::Fault{sim::kFaultMalloc, 0, 0});
      if (r.chance(1, den * 3)) op.faults.push_back(sim::Fault{sim::kFaultMemfd, 0, r.pick(e_memfd)});
      if (r.chance(1, den * 3)) op.faults.push_back(sim::Fault{sim::kFaultFtruncate, 0, r.pick(e_trunc)});
      if (r.chance(1, den * 3)) op.faults.push_back(sim::Fault{sim::kFaultShmOpen, uint32_t(r.below(2)), r.pick(e_shm)});
      if (r.chance(1, den * 4)) op.faults.push_back(sim::Fault{sim::kFaultMunmap, uint32_t(r.below(2)), 0});
    }
    p.ops.push_back(op);
  }
  return p;
}

Plan generate_clean(uint64_t seed, bool thorough) { return generate_with(seed, thorough, false, false); }
Plan generate_faulty(uint64_t seed, bool thorough) { return generate_with(seed ^ 0x5151, thorough, true, false); }
Plan generate_long(uint64_t seed, bool thorough) { return generate_with(seed ^ 0x9a9a, thorough, false, true); }

// Bounded-exhaustive enumeration of short histories on one block: every sequence of `depth` symbols over an alphabet
// of 8 operations, for 4 configurations. The run index is the sequence.
Plan generate_enum(uint64_t index, bool thorough) {
  Plan p;
  static const int64_t opts[] = {0, 0x4 /*fill*/, 0x8 /*immediate release*/, 0x2 | 0x4 /*multi pool + fill*/};
  p.set("options", opts[index % 4]);
  p.set("granularity", 64); p.set("block_size", 65536); p.set("pattern", 0); p.set("null_params", 0); p.set("junk", 0); p.set("shift", 0);
  p.set("window", 0); p.set("policy", 0); p.set("hugetlb_grant", 0); p.set("fault_class", 0); p.set("fail_ctor", 0); p.set("release_all_at_end", 1);
  uint64_t seq = index / 4;
  int depth = thorough ? 6 : 4;
  for (int d = 0; d < depth; d++) {
    Op op;
    switch (seq % 8) {
      case 0: op.kind = kAlloc; op.a[0] = 1; op.a[1] = 1; break;
      case 1: op.kind = kAlloc; op.a[0] = 3 * 64; op.a[1] = 1; break;
      case 2: op.kind = kAlloc; op.a[0] = 131072 - 3 * 64; op.a[1] = 1; break;   // (nearly) the whole first block
      case 3: op.kind = kRelease; op.a[0] = 0; break;                              // oldest held span
      case 4: op.kind = kRelease; op.a[0] = 999999; break;                         // some other span
      case 5: op.kind = kShrink; op.a[0] = 0; op.a[1] = 1; break;                  // shrink to one byte
      case 6: op.kind = kWriteFn; op.a[0] = 999999; op.a[1] = 1; op.a[2] = 0; break;
      default: op.kind = kReallocSame; op.a[0] = 0; break;
    }
    seq /= 8;
    p.ops.push_back(op);
  }
  Op q; q.kind = kQueryReleased; q.a[0] = 0; p.ops.push_back(q);
  Op st; st.kind = kStats; p.ops.push_back(st);
  return p;
}
Plan generate_enum_unused(uint64_t seed, bool thorough) { return generate_enum(seed % 4096, thorough); }

void shrink(const Plan& p, std::vector<Plan>& out) {
  static const char* const zero_keys[] = {"junk", "shift", "policy", "window", "hugetlb_grant", "pattern", "block_size", "granularity", "null_params", "fail_ctor"};
  for (const char* k : zero_keys) if (p.get(k)) { Plan q = p; q.set(k, 0); out.push_back(q); }
  int64_t o = p.get("options");
  for (int b = 0; b < 32; b++) if (o & (1ll << b)) { Plan q = p; q.set("options", o & ~(1ll << b)); out.push_back(q); }
}

void warmup() {
  // Process-wide caches of virtmem.cpp / cpuinfo.cpp are part of the simulated machine: resolve all of them under
  // the process profile before the first run, so that every run starts from the same global state.
  (void)VirtMem::info();
  (void)VirtMem::hardened_runtime_info();
  (void)VirtMem::large_page_size();
  (void)CpuInfo::host();
  VirtMem::DualMapping dm{};
  if (VirtMem::alloc_dual_mapping(Out(dm), 65536, VirtMem::MemoryFlags::kAccessRWX) == Error::kOk) (void)VirtMem::release_dual_mapping(dm, 65536);
  JitAllocator::CreateParams params; params.options = JitAllocatorOptions::kUseDualMapping | JitAllocatorOptions::kUseLargePages;
  { JitAllocator a(&params); JitAllocator::Span s; if (a.alloc(Out(s), 100) == Error::kOk) (void)a.release(s.rx()); }
  { JitAllocator a; JitAllocator::Span s; if (a.alloc(Out(s), 100) == Error::kOk) (void)a.release(s.rx()); }
}

struct WarmReg { WarmReg() { sim::register_warmup(warmup); } } warm_reg;

const sim::Scenario kClean = {"C09", "histories", "asan", 60000, 1200000, generate_clean, execute, op_name, shrink, nullptr};
const sim::Scenario kFaulty = {"C09", "histories-faults", "asan", 60000, 1200000, generate_faulty, execute, op_name, shrink, nullptr};
const sim::Scenario kPlainPlace = {"C09", "placement-plain", "plain", 100000, 2000000, generate_clean, execute, op_name, shrink, nullptr};
const sim::Scenario kLong = {"C09", "long-histories", "plain", 0, 32, generate_long, execute, op_name, shrink, nullptr};
// 4 * 8^4 = 16384 (quick) / 4 * 8^6 = 1048576 (thorough) runs cover the enumeration completely
const sim::Scenario kEnum = {"C09", "enumerated-short-histories", "asan", 16384, 1048576, generate_enum_unused, execute, op_name, shrink, nullptr, generate_enum};
sim::Registrar r1(kClean), r2(kFaulty), r3(kPlainPlace), r4(kLong), r5(kEnum);

const char* const kAssumptions[] = {
  "Double release, release/query of interior pointers, use of a span after reset() and concurrent use are caller errors and are not generated.",
  "The exact value of overhead_size() and the choice of block / address are implementation details; only their consistency is checked.",
  "Span sizes are required to be the request rounded to a multiple of the granularity of one of the pools (less than 4 granules of slack), not one particular pool.",
  nullptr};
const char* const kReal[] = {"asmjit JitAllocator, VirtMem (alloc, dual mapping, large pages, anonymous memory fallbacks), ArenaTree/ArenaList as used by the allocator", "the real kernel for every granted mapping (real mmap at MAP_FIXED_NOREPLACE, real memfd), so rx/rw views really alias", nullptr};
const char* const kStub[] = {"placement of mappings, mmap/munmap/memfd_create/shm_open/open/ftruncate failure decisions, huge page answers (sysfs file, MAP_HUGETLB), descriptor table", "SimHeap failure decisions and junk fill", nullptr};
const sim::PropInfo kInfo = {"C09", "exploration",
  "Each run is one seed: allocator configuration (any subset of the 8 option bits, valid and invalid granularity / block size, custom pattern, null params), VM placement window and policy (adjacent ascending/descending, scattered, gaps), huge-page answer, process profile (memfd / shm / tmp fallback, hardened runtime) and a history of 3..400 operations (alloc with sizes from 1 byte to several blocks incl. 0 and >2^31, release, shrink, query of live / foreign / released pointers, write, write(fn)+truncate, rejected writes, statistics, reset soft/hard, destroy+recreate, release+realloc of the same size), plus 10^4..10^5-operation histories in the thorough tier. "
  "Scenario 'enumerated-short-histories' is bounded-exhaustive instead of sampled: every sequence of 4 (quick) / 6 (thorough) operations over an alphabet of 8 (allocate 1 granule / 3 granules / nearly a whole block, release oldest / another, shrink to one byte, write+truncate, release+reallocate) x 4 option sets. Fault-free and fault-injecting runs are separate scenarios. Oracle: interval model fed by SimVM map/unmap events (alignment, size, disjointness, rx/rw aliasing via stamps, statistics, fill pattern over every byte outside live spans, retention policy, leak-freedom). Non-trivial = at least one span or block existed; distinct = distinct event-log hashes.",
  kAssumptions, kReal, kStub};
sim::PropInfoRegistrar reginfo(kInfo);

} // namespace
