// C18 - Arena-backed containers and strings behave like their abstract data types.
//
// One Arena (dynamic or static buffer, randomised block size) shared by several live containers, driven by a seeded
// history of operations with arena / heap faults attached, against std:: reference models.
#include "sim/sim.h"

#include <asmjit/core.h>
#include <asmjit/support/arena.h>
#include <asmjit/support/arenavector.h>
#include <asmjit/support/arenahash.h>
#include <asmjit/support/arenatree.h>
#include <asmjit/support/arenalist.h>
#include <asmjit/support/arenabitset_p.h>
#include <asmjit/support/arenapool.h>
#include <asmjit/support/arenastring.h>
#include <asmjit/core/string.h>

#include <string.h>
#include <stdio.h>
#include <algorithm>
#include <list>
#include <map>
#include <memory>
#include <set>
#include <string>
#include <vector>

using namespace asmjit;
using sim::Op;
using sim::Plan;
using sim::Rng;

namespace {

enum OpKind : uint16_t {
  kVecAppend, kVecPrepend, kVecInsert, kVecRemoveAt, kVecPop, kVecResize, kVecReserve, kVecConcat, kVecSwap, kVecClear,
  kVecTruncate, kVecRelease, kVecAppendUnchecked,
  kHashInsert, kHashRemove, kHashGet, kHashRelease,
  kTreeInsert, kTreeRemove, kTreeGet,
  kListAppend, kListPrepend, kListInsertBefore, kListInsertAfter, kListUnlink, kListPop, kListPopFirst,
  kBitResize, kBitAppend, kBitSetBit, kBitFillBits, kBitClearBits, kBitFillAll, kBitClearAll, kBitAnd, kBitOr, kBitAndNot,
  kBitCopyFrom, kBitTruncate, kBitClear, kBitSwap, kBitRelease, kBitEquals,
  kPoolAlloc, kPoolRelease, kChunkAlloc, kChunkRelease,
  kRawOneshot, kRawOneshotZeroed, kRawReusable, kRawReusableZeroed, kRawFreeReusable, kRawDup, kRawSformat,
  kArenaReset, kArenaStats,
  kStrAssign, kStrAppend, kStrAssignChars, kStrAppendChars, kStrAppendNumber, kStrAppendHex, kStrFormat, kStrPadEnd,
  kStrTruncate, kStrClear, kStrReset, kStrSwap, kStrMoveAssign, kStrEquals, kStrAssignSpan,
  kAStrSet, kHashSwap, kBitIterate,
  kOpCount
};

const char* const kOpNames[kOpCount] = {
  "vec_append", "vec_prepend", "vec_insert", "vec_remove_at", "vec_pop", "vec_resize", "vec_reserve", "vec_concat", "vec_swap", "vec_clear",
  "vec_truncate", "vec_release", "vec_append_unchecked",
  "hash_insert", "hash_remove", "hash_get", "hash_release",
  "tree_insert", "tree_remove", "tree_get",
  "list_append", "list_prepend", "list_insert_before", "list_insert_after", "list_unlink", "list_pop", "list_pop_first",
  "bit_resize", "bit_append", "bit_set_bit", "bit_fill_bits", "bit_clear_bits", "bit_fill_all", "bit_clear_all", "bit_and", "bit_or", "bit_and_not",
  "bit_copy_from", "bit_truncate", "bit_clear", "bit_swap", "bit_release", "bit_equals",
  "pool_alloc", "pool_release", "chunk_alloc", "chunk_release",
  "raw_oneshot", "raw_oneshot_zeroed", "raw_reusable", "raw_reusable_zeroed", "raw_free_reusable", "raw_dup", "raw_sformat",
  "arena_reset", "arena_stats",
  "str_assign", "str_append", "str_assign_chars", "str_append_chars", "str_append_number", "str_append_hex", "str_format", "str_pad_end",
  "str_truncate", "str_clear", "str_reset", "str_swap", "str_move_assign", "str_equals", "str_assign_span",
  "astr_set", "hash_swap", "bit_iterate"
};

const char* op_name(uint16_t k) { return k < kOpCount ? kOpNames[k] : "?"; }

// ---------------------------------------------------------------------------------------------------------------
// Element types
// ---------------------------------------------------------------------------------------------------------------

struct E24 { uint64_t a, b, c; bool operator==(const E24& o) const { return a == o.a && b == o.b && c == o.c; } };

template<typename T> T make_elem(uint64_t v) { return T(v); }
template<> E24 make_elem<E24>(uint64_t v) { return E24{v, ~v, v * 0x9E3779B97F4A7C15ull}; }

struct HNode : public ArenaHashNode {
  HNode(uint32_t key, uint32_t hash) : ArenaHashNode(hash), key(key) {}
  uint32_t key;
};
struct HKey {
  uint32_t key, hash;
  uint32_t hash_code() const { return hash; }
  bool matches(const HNode* n) const { return n->key == key; }
};

struct TNode : public ArenaTreeNodeT<TNode> {
  explicit TNode(uint32_t key) : key(key) {}
  uint32_t key;
  bool operator<(const TNode& o) const { return key < o.key; }
  bool operator>(const TNode& o) const { return key > o.key; }
  bool operator<(uint32_t k) const { return key < k; }
  bool operator>(uint32_t k) const { return key > k; }
};

struct LNode : public ArenaListNode<LNode> {
  explicit LNode(uint32_t v) : value(v) {}
  uint32_t value;
};

struct PoolItem { uint64_t a, b, c, d; };
struct PoolHeader { uint64_t link; };   // header of a chunk whose payload follows it: ArenaPool<PoolHeader, kChunkSize>
constexpr size_t kChunkSize = 72;

// ---------------------------------------------------------------------------------------------------------------
// World
// ---------------------------------------------------------------------------------------------------------------

struct IVec {
  virtual ~IVec() {}
  virtual void apply(const Op& op, struct World& w, IVec* other) = 0;
  virtual void check(const char* when) = 0;
  virtual void drop() = 0;   // arena was reset
};

struct RawBlock { uint8_t* p; size_t size; uint64_t stamp; bool reusable; size_t alloc_size; };

struct World {
  const Plan& plan;
  std::unique_ptr<uint8_t[]> static_buf;
  size_t static_size = 0;
  std::unique_ptr<Arena> arena;
  std::vector<std::unique_ptr<IVec>> vecs;

  ArenaHash<HNode> hash;
  std::map<uint32_t, HNode*> hash_model;
  ArenaHash<HNode> hash_spare;                  // swapped with `hash` by hash_swap; holds whatever `hash` held before
  std::map<uint32_t, HNode*> hash_spare_model;
  uint32_t hash_mask = 0xffffffffu;

  ArenaTree<TNode> tree;
  std::map<uint32_t, TNode*> tree_model;

  ArenaList<LNode> list;
  std::list<LNode*> list_model;

  ArenaBitSet bits[2];
  std::vector<bool> bits_model[2];

  ArenaPool<PoolItem> pool;
  std::vector<PoolItem*> pool_live;
  std::set<PoolItem*> pool_released;
  ArenaPool<PoolHeader, kChunkSize> chunk_pool;   // chunks larger than the header type (explicit Size argument)
  std::vector<uint8_t*> chunk_live;
  std::set<uint8_t*> chunk_released;

  std::vector<RawBlock> raws;
  uint64_t stamp_counter = 1;

  // heap strings: 0,1 = String ; 2 = StringTmp<64> ; 3 = StringTmp<200>
  String s0, s1; StringTmp<64> s2; StringTmp<200> s3;
  std::string str_model[4];

  ArenaString<16> astr;
  std::string astr_model;

  uint64_t op_counter = 0;

  explicit World(const Plan& p) : plan(p) {}
  String& str(size_t i) { switch (i & 3) { case 0: return s0; case 1: return s1; case 2: return s2; default: return s3; } }
};

template<typename T>
struct VecSlot : IVec {
  ArenaVector<T> v;
  std::vector<T> m;
  const char* tname;
  explicit VecSlot(const char* n) : tname(n) {}

  void check(const char* when) override {
    SIM_CHECK(v.size() == m.size(), "c18:vector-size", "ArenaVector<%s> %s: size %zu, model %zu", tname, when, v.size(), m.size());
    SIM_CHECK(v.capacity() >= v.size(), "c18:vector-capacity", "ArenaVector<%s> %s: capacity %zu < size %zu", tname, when, v.capacity(), v.size());
    SIM_CHECK(v.is_empty() == m.empty(), "c18:vector-size", "ArenaVector<%s> %s: is_empty() disagrees", tname, when);
    for (size_t i = 0; i < m.size(); i++)
      SIM_CHECK(memcmp(&v[i], &m[i], sizeof(T)) == 0, "c18:vector-content", "ArenaVector<%s> %s: element %zu of %zu differs from the model", tname, when, i, m.size());
    size_t k = 0;
    for (const T& e : v.iterate()) { SIM_CHECK(memcmp(&e, &m[k], sizeof(T)) == 0, "c18:vector-content", "ArenaVector<%s> iterate(): element %zu differs", tname, k); k++; }
    SIM_CHECK(k == m.size(), "c18:vector-size", "ArenaVector<%s> iterate() visited %zu of %zu", tname, k, m.size());
    // lookups (values repeat in these vectors, so first and last index differ regularly)
    if (!m.empty()) {
      const T& probe = m[m.size() / 2];
      size_t first = SIZE_MAX, last = SIZE_MAX;
      for (size_t i = 0; i < m.size(); i++) if (memcmp(&m[i], &probe, sizeof(T)) == 0) { if (first == SIZE_MAX) first = i; last = i; }
      SIM_CHECK(v.contains(probe) && v.index_of(probe) == first && v.last_index_of(probe) == last, "c18:vector-lookup", "ArenaVector<%s> %s: contains/index_of/last_index_of give %d/%zu/%zu, the model says 1/%zu/%zu", tname, when,
                int(v.contains(probe)), v.index_of(probe), v.last_index_of(probe), first, last);
    }
  }

  void drop() override { v.reset(); m.clear(); }

  void apply(const Op& op, World& w, IVec* other_) override {
    VecSlot<T>* other = static_cast<VecSlot<T>*>(other_);
    Arena& arena = *w.arena;
    T val = make_elem<T>(uint64_t(op.a[1]));
    switch (op.kind) {
      // (one call in five passes an element OF THE VECTOR ITSELF by reference - std::vector::push_back/insert allow that)
      case kVecAppend: { bool alias = !m.empty() && (uint64_t(op.a[3]) % 5) == 4; if (alias) { val = m[size_t(uint64_t(op.a[1]) % m.size())]; sim::count("c18.probe.vector_aliased_argument"); } Error e = alias ? v.append(arena, v[size_t(uint64_t(op.a[1]) % m.size())]) : v.append(arena, val); if (e == Error::kOk) m.push_back(val); sim::logf("vec_append<%s> err=%u size=%zu", tname, unsigned(e), v.size()); break; }
      case kVecPrepend: { bool alias = !m.empty() && (uint64_t(op.a[3]) % 5) == 4; if (alias) val = m[size_t(uint64_t(op.a[1]) % m.size())]; Error e = alias ? v.prepend(arena, v[size_t(uint64_t(op.a[1]) % m.size())]) : v.prepend(arena, val); if (e == Error::kOk) m.insert(m.begin(), val); sim::logf("vec_prepend<%s> err=%u", tname, unsigned(e)); break; }
      case kVecInsert: { size_t idx = m.empty() ? 0 : size_t(op.a[2]) % (m.size() + 1); bool alias = !m.empty() && (uint64_t(op.a[3]) % 5) == 4; if (alias) val = m[size_t(uint64_t(op.a[1]) % m.size())]; Error e = alias ? v.insert(arena, idx, v[size_t(uint64_t(op.a[1]) % m.size())]) : v.insert(arena, idx, val); if (e == Error::kOk) m.insert(m.begin() + long(idx), val); sim::logf("vec_insert<%s> at=%zu err=%u", tname, idx, unsigned(e)); break; }
      case kVecRemoveAt: { if (m.empty()) break; size_t idx = size_t(op.a[2]) % m.size(); v.remove_at(idx); m.erase(m.begin() + long(idx)); sim::logf("vec_remove_at<%s> %zu", tname, idx); break; }
      case kVecPop: { if (m.empty()) break; T x = v.pop(); SIM_CHECK(memcmp(&x, &m.back(), sizeof(T)) == 0, "c18:vector-content", "ArenaVector<%s>::pop() returned a wrong element", tname); m.pop_back(); sim::logf("vec_pop<%s>", tname); break; }
      case kVecResize: {
        size_t n = size_t(op.a[2]);
        Error e = (op.a[3] & 1) ? v.resize_grow(arena, n) : v.resize_fit(arena, n);
        if (e == Error::kOk) { T zero; memset(&zero, 0, sizeof zero); m.resize(n, zero); }
        else SIM_CHECK(n > m.size() || sim::run_faults_fired_total() > 0, "c18:vector-resize", "ArenaVector<%s>::resize to %zu <= size failed", tname, n);
        sim::logf("vec_resize<%s> n=%zu err=%u", tname, n, unsigned(e));
        break;
      }
      case kVecReserve: {
        size_t n = size_t(op.a[2]);
        if (sizeof(size_t) == 8 && (op.a[2] % 41) == 40) {
          // an item count that does not fit the vector's 32-bit size field (and whose byte size may wrap): refused by every
          // reserve / resize path before anything is allocated
          static const uint64_t huge[] = {0x100000000ull, 0x100000005ull, 0x2000000000000001ull, 0xFFFFFFFFFFFFFFFFull, 0x8000000000000000ull};
          size_t hn = size_t(huge[size_t(op.a[1]) % 5]);
          size_t size_before = v.size(), cap_before = v.capacity();
          Error he;
          switch (op.a[3] % 5) { case 0: he = v.reserve_fit(arena, hn); break; case 1: he = v.reserve_grow(arena, hn); break; case 2: he = v.resize_grow(arena, hn); break; case 3: he = v.resize_fit(arena, hn); break; default: he = v.reserve_additional(arena, hn); break; }
          SIM_CHECK(he != Error::kOk, "c18:vector-reserve", "ArenaVector<%s>: reserving / resizing to %zu items reported success (size %zu -> %zu, capacity %zu -> %zu)", tname, hn, size_before, v.size(), cap_before, v.capacity());
          SIM_CHECK(v.size() == size_before && v.capacity() == cap_before, "c18:vector-reserve", "ArenaVector<%s>: a refused reserve / resize changed the vector", tname);
          sim::count("c18.probe.vector_item_count_beyond_32_bits");
          check("after a refused reserve");
          break;
        }
        Error e;
        switch (op.a[3] % 3) { case 0: e = v.reserve_fit(arena, n); break; case 1: e = v.reserve_grow(arena, n); break; default: e = v.reserve_additional(arena, n); n += m.size(); break; }
        if (e == Error::kOk) SIM_CHECK(v.capacity() >= n, "c18:vector-reserve", "ArenaVector<%s>::reserve(%zu) succeeded but capacity is %zu", tname, n, v.capacity());
        sim::logf("vec_reserve<%s> n=%zu err=%u", tname, n, unsigned(e));
        break;
      }
      case kVecConcat: { if (other == this) break; Error e = v.concat(arena, other->v); if (e == Error::kOk) m.insert(m.end(), other->m.begin(), other->m.end()); sim::logf("vec_concat<%s> err=%u size=%zu", tname, unsigned(e), v.size()); break; }
      case kVecSwap: { if (other == this) break; v.swap(other->v); m.swap(other->m); other->check("after swap"); sim::logf("vec_swap<%s>", tname); break; }
      case kVecClear: v.clear(); m.clear(); break;
      case kVecTruncate: { size_t n = size_t(op.a[2]); v.truncate(n); if (n < m.size()) m.resize(n); break; }
      case kVecRelease: v.release(arena); m.clear(); SIM_CHECK(v.capacity() == 0 && v.data() == nullptr, "c18:vector-release", "release() left storage attached"); break;
      case kVecAppendUnchecked: { if (v.size() < v.capacity()) { v.append_unchecked(val); m.push_back(val); } break; }
      default: break;
    }
    check("after op");
  }
};

// ---------------------------------------------------------------------------------------------------------------
// Checks
// ---------------------------------------------------------------------------------------------------------------

void check_raw_blocks(World& w) {
  for (auto& b : w.raws) {
    for (size_t i = 0; i + 8 <= b.size; i += 8) {
      uint64_t v; memcpy(&v, b.p + i, 8);
      SIM_CHECK(v == b.stamp + i, "c18:arena-block-corrupted", "raw arena block of %zu bytes lost its contents at offset %zu (another allocation overlaps it)", b.size, i);
    }
  }
}

void stamp_raw(RawBlock& b) { for (size_t i = 0; i + 8 <= b.size; i += 8) { uint64_t v = b.stamp + i; memcpy(b.p + i, &v, 8); } }

void check_new_raw(World& w, uint8_t* p, size_t size, const char* what) {
  SIM_CHECK((uintptr_t(p) & (Arena::kAlignment - 1)) == 0, "c18:arena-alignment", "%s(%zu) returned a pointer that is not %zu-byte aligned", what, size, Arena::kAlignment);
  // inside memory the arena owns
  bool inside_static = w.static_buf && p >= w.static_buf.get() && p + size <= w.static_buf.get() + w.static_size;
  if (!inside_static) {
    size_t bsz = 0; const void* base = nullptr;
    bool found = sim::heap::find_block(p, &bsz, &base);
    SIM_CHECK(found && p + size <= static_cast<const uint8_t*>(base) + bsz, "c18:arena-out-of-block", "%s(%zu) returned memory outside every block the arena obtained", what, size);
  }
  for (auto& b : w.raws)
    SIM_CHECK(p + size <= b.p || b.p + b.alloc_size <= p, "c18:arena-overlap", "%s(%zu) returned memory overlapping a live block of %zu bytes", what, size, b.alloc_size);
}

int tree_check_rec(TNode* n, uint32_t* lo, uint32_t* hi, size_t* count) {
  if (!n) return 1;
  (*count)++;
  TNode* l = n->left(); TNode* r = n->right();
  if (n->is_red()) SIM_CHECK(!(l && l->is_red()) && !(r && r->is_red()), "c18:tree-red-red", "red node %u has a red child", n->key);
  if (lo) SIM_CHECK(n->key > *lo, "c18:tree-order", "node %u violates ordering (lower bound %u)", n->key, *lo);
  if (hi) SIM_CHECK(n->key < *hi, "c18:tree-order", "node %u violates ordering (upper bound %u)", n->key, *hi);
  uint32_t k = n->key;
  int bl = tree_check_rec(l, lo, &k, count);
  int br = tree_check_rec(r, &k, hi, count);
  SIM_CHECK(bl == br, "c18:tree-black-height", "black height differs below node %u (%d vs %d)", n->key, bl, br);
  return bl + (n->is_red() ? 0 : 1);
}

void check_tree(World& w) {
  size_t count = 0;
  TNode* root = w.tree.root();
  if (root) SIM_CHECK(!root->is_red(), "c18:tree-root-red", "root is red");
  tree_check_rec(root, nullptr, nullptr, &count);
  SIM_CHECK(count == w.tree_model.size(), "c18:tree-size", "tree holds %zu nodes, model %zu", count, w.tree_model.size());
  SIM_CHECK(w.tree.is_empty() == w.tree_model.empty(), "c18:tree-size", "is_empty() disagrees");
  for (auto& kv : w.tree_model) SIM_CHECK(w.tree.get(kv.first) == kv.second, "c18:tree-get", "get(%u) did not return the inserted node", kv.first);
}

void check_hash(World& w) {
  SIM_CHECK(w.hash.size() == w.hash_model.size(), "c18:hash-size", "hash size %zu, model %zu", w.hash.size(), w.hash_model.size());
  for (auto& kv : w.hash_model) {
    HNode* n = w.hash.get(HKey{kv.first, kv.first & w.hash_mask});
    SIM_CHECK(n == kv.second, "c18:hash-unreachable", "key %u is not reachable through get()", kv.first);
  }
  // every bucket chain only holds model nodes, total == size
  size_t total = 0;
  for (uint32_t b = 0; b < w.hash._buckets_count; b++) {
    for (ArenaHashNode* n = w.hash._data[b]; n; n = n->_hash_next) {
      total++;
      SIM_CHECK(total <= w.hash_model.size(), "c18:hash-chain", "bucket chains hold more nodes than were inserted (cycle or stale node)");
      HNode* hn = static_cast<HNode*>(n);
      auto it = w.hash_model.find(hn->key);
      SIM_CHECK(it != w.hash_model.end() && it->second == hn, "c18:hash-chain", "bucket chain holds a node that was removed");
    }
  }
  SIM_CHECK(total == w.hash_model.size(), "c18:hash-chain", "bucket chains hold %zu nodes, expected %zu", total, w.hash_model.size());
}

void check_list(World& w) {
  LNode* n = w.list.first();
  LNode* prev = nullptr;
  auto it = w.list_model.begin();
  size_t i = 0;
  while (n) {
    SIM_CHECK(it != w.list_model.end(), "c18:list-order", "list is longer than the model (%zu)", w.list_model.size());
    SIM_CHECK(n == *it, "c18:list-order", "list element %zu differs from the model", i);
    SIM_CHECK(n->prev() == prev, "c18:list-links", "prev link of element %zu is not symmetric", i);
    prev = n; n = n->next(); ++it; i++;
    SIM_CHECK(i <= w.list_model.size() + 1, "c18:list-order", "list does not terminate");
  }
  SIM_CHECK(it == w.list_model.end(), "c18:list-order", "list is shorter (%zu) than the model (%zu)", i, w.list_model.size());
  SIM_CHECK(w.list.last() == prev, "c18:list-links", "last() is not the final element");
  SIM_CHECK(w.list.is_empty() == w.list_model.empty(), "c18:list-order", "is_empty() disagrees");
}

void check_bits(World& w, int i) {
  ArenaBitSet& b = w.bits[i]; std::vector<bool>& m = w.bits_model[i];
  SIM_CHECK(b.size() == m.size(), "c18:bitset-size", "bit set %d: size %zu, model %zu", i, b.size(), m.size());
  SIM_CHECK(b.capacity() >= b.size(), "c18:bitset-capacity", "bit set %d: capacity %zu < size %zu", i, b.capacity(), b.size());
  for (size_t k = 0; k < m.size(); k++) SIM_CHECK(b.bit_at(k) == m[k], "c18:bitset-content", "bit set %d: bit %zu of %zu is %d, model %d", i, k, m.size(), int(b.bit_at(k)), int(m[k]));
  // bits beyond size() inside the last word must be zero (equals()/or_() rely on it)
  size_t rem = m.size() % Support::bit_size_of<BitWord>;
  if (rem) { BitWord last = b.data()[m.size() / Support::bit_size_of<BitWord>]; SIM_CHECK((last >> rem) == 0, "c18:bitset-unused-bits", "bit set %d: bits beyond size() are set in the last word", i); }
  // iteration visits exactly the set bits
  size_t expect = 0; for (bool v : m) expect += v;
  if (!m.empty()) { ArenaBitSet::ForEachBitSet it(b); size_t n = 0; while (it.has_next()) { size_t idx = it.next(); SIM_CHECK(idx < m.size() && m[idx], "c18:bitset-iterate", "iteration produced bit %zu that is not set", idx); n++; } SIM_CHECK(n == expect, "c18:bitset-iterate", "iteration visited %zu bits, expected %zu", n, expect); }
}

void check_str(World& w, size_t i, const char* when) {
  String& s = w.str(i); const std::string& m = w.str_model[i & 3];
  SIM_CHECK(s.size() == m.size(), "c18:string-size", "String %zu %s: size %zu, model %zu", i & 3, when, s.size(), m.size());
  SIM_CHECK(s.capacity() >= s.size(), "c18:string-capacity", "String %zu %s: capacity %zu < size %zu", i & 3, when, s.capacity(), s.size());
  SIM_CHECK(memcmp(s.data(), m.data(), m.size()) == 0, "c18:string-content", "String %zu %s: content differs from the model (size %zu)", i & 3, when, m.size());
  SIM_CHECK(s.data()[s.size()] == '\0', "c18:string-termination", "String %zu %s: not NUL terminated at size() = %zu", i & 3, when, s.size());
  SIM_CHECK(s.is_empty() == m.empty(), "c18:string-size", "is_empty() disagrees");
}

void check_all(World& w) {
  for (auto& v : w.vecs) v->check("full check");
  check_hash(w); check_tree(w); check_list(w); check_bits(w, 0); check_bits(w, 1); check_raw_blocks(w);
  for (size_t i = 0; i < 4; i++) check_str(w, i, "full check");
  SIM_CHECK(w.astr.size() == w.astr_model.size() && memcmp(w.astr.data(), w.astr_model.data(), w.astr_model.size()) == 0 && w.astr.data()[w.astr.size()] == 0, "c18:arenastring", "ArenaString differs from the model");
  for (PoolItem* p : w.pool_live) SIM_CHECK(p->a == uint64_t(uintptr_t(p)) && p->d == ~uint64_t(uintptr_t(p)), "c18:pool-corrupted", "live pool item was overwritten");
  // Arena statistics must be walkable and sane.
  ArenaStatistics st = w.arena->statistics();
  SIM_CHECK(st.reserved_size() >= st.used_size(), "c18:arena-statistics", "used_size %zu > reserved_size %zu", st.used_size(), st.reserved_size());
}

void arena_was_reset(World& w) {
  for (auto& v : w.vecs) v->drop();
  w.hash.reset(); w.hash_model.clear();
  w.hash_spare.reset(); w.hash_spare_model.clear();
  w.tree.reset(); w.tree_model.clear();
  w.list.reset(); w.list_model.clear();
  for (int i = 0; i < 2; i++) { w.bits[i].reset(); w.bits_model[i].clear(); }
  w.pool.reset(); w.pool_live.clear(); w.pool_released.clear();
  w.chunk_pool.reset(); w.chunk_live.clear(); w.chunk_released.clear();
  w.raws.clear();
  w.astr.reset(); w.astr_model.clear();
}

std::string gen_text(uint64_t seed, size_t n) {
  std::string s; s.reserve(n);
  Rng r(seed);
  for (size_t i = 0; i < n; i++) s += char('a' + r.below(26));
  return s;
}

// ---------------------------------------------------------------------------------------------------------------
// Execution
// ---------------------------------------------------------------------------------------------------------------

void exec_op(World& w, const Op& op) {
  Arena& arena = *w.arena;
  switch (op.kind) {
    case kVecAppend: case kVecPrepend: case kVecInsert: case kVecRemoveAt: case kVecPop: case kVecResize: case kVecReserve: case kVecConcat:
    case kVecSwap: case kVecClear: case kVecTruncate: case kVecRelease: case kVecAppendUnchecked: {
      size_t i = size_t(op.a[0]) % w.vecs.size();
      w.vecs[i]->apply(op, w, w.vecs[i ^ 1].get());
      break;
    }

    case kHashInsert: {
      uint32_t key = uint32_t(op.a[0]);
      if (w.hash_model.count(key)) break;
      HNode* n = arena.new_oneshot<HNode>(key, key & w.hash_mask);
      if (!n) { sim::logf("hash_insert: node alloc failed"); break; }
      uint32_t before = w.hash._buckets_count;
      HNode* r = w.hash.insert(arena, n);
      SIM_CHECK(r == n, "c18:hash-insert", "insert() did not return the node");
      w.hash_model[key] = n;
      if (w.hash._buckets_count != before) sim::count("c18.probe.rehash_taken");
      else if (w.hash.size() > w.hash._buckets_grow) sim::count("c18.probe.rehash_refused");
      sim::logf("hash_insert %u buckets=%u", key, w.hash._buckets_count);
      check_hash(w);
      break;
    }
    case kHashRemove: {
      if (w.hash_model.empty()) break;
      auto it = w.hash_model.lower_bound(uint32_t(op.a[0])); if (it == w.hash_model.end()) it = w.hash_model.begin();
      HNode* r = w.hash.remove(arena, it->second);
      SIM_CHECK(r == it->second, "c18:hash-remove", "remove() of an inserted node returned %s", r ? "another node" : "null");
      sim::logf("hash_remove %u", it->first);
      w.hash_model.erase(it);
      check_hash(w);
      break;
    }
    case kHashGet: {
      uint32_t key = uint32_t(op.a[0]);
      HNode* n = w.hash.get(HKey{key, key & w.hash_mask});
      auto it = w.hash_model.find(key);
      SIM_CHECK(n == (it == w.hash_model.end() ? nullptr : it->second), "c18:hash-get", "get(%u) returned a wrong node", key);
      break;
    }
    case kHashRelease: { w.hash.release(arena); w.hash_model.clear(); check_hash(w); break; }
    case kHashSwap: { sim::logf("hash_swap %zu <-> %zu entries", w.hash.size(), w.hash_spare.size()); w.hash.swap(w.hash_spare); w.hash_model.swap(w.hash_spare_model); check_hash(w); break; }

    case kTreeInsert: {
      uint32_t key = uint32_t(op.a[0]);
      if (w.tree_model.count(key)) break;
      TNode* n = arena.new_oneshot<TNode>(key);
      if (!n) break;
      w.tree.insert(n);
      w.tree_model[key] = n;
      sim::logf("tree_insert %u", key);
      check_tree(w);
      break;
    }
    case kTreeRemove: {
      if (w.tree_model.empty()) break;
      auto it = w.tree_model.lower_bound(uint32_t(op.a[0])); if (it == w.tree_model.end()) it = w.tree_model.begin();
      w.tree.remove(it->second);
      sim::logf("tree_remove %u", it->first);
      w.tree_model.erase(it);
      check_tree(w);
      break;
    }
    case kTreeGet: {
      uint32_t key = uint32_t(op.a[0]);
      TNode* n = w.tree.get(key);
      auto it = w.tree_model.find(key);
      SIM_CHECK(n == (it == w.tree_model.end() ? nullptr : it->second), "c18:tree-get", "get(%u) returned a wrong node", key);
      break;
    }

    case kListAppend: case kListPrepend: case kListInsertBefore: case kListInsertAfter: {
      LNode* n = arena.new_oneshot<LNode>(uint32_t(op.a[0]));
      if (!n) break;
      if (op.kind == kListAppend) { w.list.append(n); w.list_model.push_back(n); }
      else if (op.kind == kListPrepend) { w.list.prepend(n); w.list_model.push_front(n); }
      else {
        if (w.list_model.empty()) { w.list.append(n); w.list_model.push_back(n); }
        else {
          auto it = w.list_model.begin(); std::advance(it, long(size_t(op.a[1]) % w.list_model.size()));
          if (op.kind == kListInsertBefore) { w.list.insert_before(*it, n); w.list_model.insert(it, n); }
          else { w.list.insert_after(*it, n); ++it; w.list_model.insert(it, n); }
        }
      }
      sim::logf("%s size=%zu", op_name(op.kind), w.list_model.size());
      check_list(w);
      break;
    }
    case kListUnlink: {
      if (w.list_model.empty()) break;
      auto it = w.list_model.begin(); std::advance(it, long(size_t(op.a[1]) % w.list_model.size()));
      LNode* r = w.list.unlink(*it);
      SIM_CHECK(r == *it && !r->has_prev() && !r->has_next(), "c18:list-unlink", "unlink() did not detach the node");
      w.list_model.erase(it);
      check_list(w);
      break;
    }
    case kListPop: { if (w.list_model.empty()) break; LNode* r = w.list.pop(); SIM_CHECK(r == w.list_model.back(), "c18:list-pop", "pop() returned a wrong node"); w.list_model.pop_back(); check_list(w); break; }
    case kListPopFirst: { if (w.list_model.empty()) break; LNode* r = w.list.pop_first(); SIM_CHECK(r == w.list_model.front(), "c18:list-pop", "pop_first() returned a wrong node"); w.list_model.pop_front(); check_list(w); break; }

    case kBitResize: {
      int i = int(op.a[0] & 1); size_t n = size_t(op.a[1]); bool val = op.a[2] & 1;
      Error e = w.bits[i].resize(arena, n, val);
      if (e == Error::kOk) w.bits_model[i].resize(n, val);
      sim::logf("bit_resize %d n=%zu val=%d err=%u", i, n, int(val), unsigned(e));
      check_bits(w, i);
      break;
    }
    case kBitAppend: { int i = int(op.a[0] & 1); bool val = op.a[2] & 1; Error e = w.bits[i].append(arena, val); if (e == Error::kOk) w.bits_model[i].push_back(val); check_bits(w, i); break; }
    case kBitSetBit: { int i = int(op.a[0] & 1); auto& m = w.bits_model[i]; if (m.empty()) break; size_t k = size_t(op.a[1]) % m.size(); bool val = op.a[2] & 1;
      switch (op.a[3] & 3) { case 0: w.bits[i].set_bit(k, val); m[k] = val; break; case 1: w.bits[i].add_bit(k, val); m[k] = m[k] || val; break; case 2: w.bits[i].clear_bit(k); m[k] = false; break; default: w.bits[i].xor_bit(k, val); m[k] = m[k] != val; break; }
      check_bits(w, i); break; }
    case kBitFillBits: case kBitClearBits: {
      int i = int(op.a[0] & 1); auto& m = w.bits_model[i]; if (m.empty()) break;
      size_t start = size_t(op.a[1]) % (m.size() + 1); size_t cnt = size_t(op.a[2]) % (m.size() - start + 1);
      if (op.kind == kBitFillBits) w.bits[i].fill_bits(start, cnt); else w.bits[i].clear_bits(start, cnt);
      for (size_t k = 0; k < cnt; k++) m[start + k] = op.kind == kBitFillBits;
      sim::logf("%s %d [%zu,+%zu)", op_name(op.kind), i, start, cnt);
      check_bits(w, i); break;
    }
    case kBitFillAll: { int i = int(op.a[0] & 1); if (w.bits_model[i].empty()) break; w.bits[i].fill_all(); std::fill(w.bits_model[i].begin(), w.bits_model[i].end(), true); check_bits(w, i); break; }
    case kBitClearAll: { int i = int(op.a[0] & 1); if (w.bits_model[i].empty()) break; w.bits[i].clear_all(); std::fill(w.bits_model[i].begin(), w.bits_model[i].end(), false); check_bits(w, i); break; }
    case kBitAnd: case kBitOr: case kBitAndNot: {
      int i = int(op.a[0] & 1); auto& m = w.bits_model[i]; auto& o = w.bits_model[i ^ 1];
      if (m.empty() || o.empty()) break;
      for (size_t k = 0; k < m.size(); k++) { bool ob = k < o.size() ? bool(o[k]) : false; if (op.kind == kBitAnd) m[k] = m[k] && ob; else if (op.kind == kBitOr) m[k] = m[k] || ob; else m[k] = m[k] && !ob; }
      if (op.kind == kBitAnd) w.bits[i].and_(w.bits[i ^ 1]); else if (op.kind == kBitOr) w.bits[i].or_(w.bits[i ^ 1]); else w.bits[i].and_not(w.bits[i ^ 1]);
      sim::logf("%s %d (%zu,%zu)", op_name(op.kind), i, m.size(), o.size());
      check_bits(w, i); check_bits(w, i ^ 1); break;
    }
    case kBitCopyFrom: { int i = int(op.a[0] & 1); Error e = w.bits[i].copy_from(arena, w.bits[i ^ 1]); if (e == Error::kOk) w.bits_model[i] = w.bits_model[i ^ 1]; check_bits(w, i); break; }
    case kBitTruncate: { int i = int(op.a[0] & 1); if (w.bits_model[i].empty()) break; uint32_t n = uint32_t(op.a[1]); w.bits[i].truncate(n); if (n < w.bits_model[i].size()) w.bits_model[i].resize(n); check_bits(w, i); break; }
    case kBitClear: { int i = int(op.a[0] & 1); w.bits[i].clear(); w.bits_model[i].clear(); break; }
    case kBitSwap: { w.bits[0].swap(w.bits[1]); w.bits_model[0].swap(w.bits_model[1]); check_bits(w, 0); check_bits(w, 1); break; }
    case kBitRelease: { int i = int(op.a[0] & 1); w.bits[i].release(arena); w.bits_model[i].clear(); break; }
    case kBitIterate: {
      // Support::BitVectorIterator / BitVectorOpIterator from an arbitrary start bit (also beyond the first word and beyond
      // the end), over the words of the two bit sets and over 32-bit copies of them
      auto& m0 = w.bits_model[0]; auto& m1 = w.bits_model[1];
      size_t common = std::min(w.bits[0].size_in_bit_words(), w.bits[1].size_in_bit_words());
      size_t start = size_t(op.a[1]) % (common * Support::bit_size_of<BitWord> + 70);
      auto bit = [](const std::vector<bool>& m, size_t k) { return k < m.size() && m[k]; };
      auto run = [&](auto it, size_t limit, int which, const char* what) {
        size_t k = start;
        auto expect = [&](size_t q) { bool a = bit(m0, q), b = bit(m1, q); return which == 0 ? a : which == 1 ? (a && b) : which == 2 ? (a || b) : which == 3 ? (a != b) : (a && !b); };
        while (it.has_next()) {
          size_t idx = it.next();
          SIM_CHECK(idx >= start && idx < limit, "c18:bitvector-iterate", "%s from bit %zu produced index %zu (limit %zu)", what, start, idx, limit);
          for (; k < idx; k++) SIM_CHECK(!expect(k), "c18:bitvector-iterate", "%s from bit %zu skipped bit %zu", what, start, k);
          SIM_CHECK(expect(idx), "c18:bitvector-iterate", "%s from bit %zu produced bit %zu which is not in the result", what, start, idx);
          k = idx + 1;
        }
        for (; k < limit; k++) SIM_CHECK(!expect(k), "c18:bitvector-iterate", "%s from bit %zu stopped before bit %zu", what, start, k);
      };
      if (w.bits[0].size_in_bit_words()) run(Support::BitVectorIterator<BitWord>(w.bits[0].as_span(), start), w.bits[0].size_in_bit_words() * Support::bit_size_of<BitWord>, 0, "BitVectorIterator");
      if (common) {
        size_t limit = common * Support::bit_size_of<BitWord>;
        const BitWord* a = w.bits[0].data(); const BitWord* b = w.bits[1].data();
        switch (op.a[2] % 4) {
          case 0: run(Support::BitVectorOpIterator<BitWord, Support::And>(a, b, common, start), limit, 1, "BitVectorOpIterator<And>"); break;
          case 1: run(Support::BitVectorOpIterator<BitWord, Support::Or>(a, b, common, start), limit, 2, "BitVectorOpIterator<Or>"); break;
          case 2: run(Support::BitVectorOpIterator<BitWord, Support::Xor>(a, b, common, start), limit, 3, "BitVectorOpIterator<Xor>"); break;
          default: run(Support::BitVectorOpIterator<BitWord, Support::AndNot>(a, b, common, start), limit, 4, "BitVectorOpIterator<AndNot>"); break;
        }
        // the same over 32-bit words
        size_t words32 = std::min(m0.size(), m1.size()) / 32;
        if (words32) {
          std::vector<uint32_t> a32(words32, 0), b32(words32, 0);
          for (size_t k = 0; k < words32 * 32; k++) { if (m0[k]) a32[k / 32] |= 1u << (k % 32); if (m1[k]) b32[k / 32] |= 1u << (k % 32); }
          start %= words32 * 32 + 40;
          run(Support::BitVectorOpIterator<uint32_t, Support::Xor>(a32.data(), b32.data(), words32, start), words32 * 32, 3, "BitVectorOpIterator<uint32_t, Xor>");
          run(Support::BitVectorIterator<uint32_t>(Span<const uint32_t>(a32.data(), words32), start), words32 * 32, 0, "BitVectorIterator<uint32_t>");
        }
      }
      sim::count("c18.probe.bitvector_iterate");
      break;
    }
    case kBitEquals: { bool e = w.bits[0].equals(w.bits[1]); SIM_CHECK(e == (w.bits_model[0] == w.bits_model[1]), "c18:bitset-equals", "equals() returned %d, model says %d", int(e), int(w.bits_model[0] == w.bits_model[1])); break; }

    case kPoolAlloc: {
      PoolItem* p = w.pool.alloc(arena);
      if (!p) break;
      SIM_CHECK((uintptr_t(p) & 7) == 0, "c18:pool-alignment", "pool item is not 8-byte aligned");
      for (PoolItem* q : w.pool_live) SIM_CHECK(q != p, "c18:pool-double-handout", "pool handed out an item that is still live");
      if (w.pool_released.erase(p)) sim::count("c18.probe.pool_recycled");
      p->a = uint64_t(uintptr_t(p)); p->b = 0; p->c = 0; p->d = ~uint64_t(uintptr_t(p));
      w.pool_live.push_back(p);
      break;
    }
    case kChunkAlloc: {
      // every byte of a chunk belongs to its owner: it is tracked like a raw arena block (alignment, inside the arena's
      // memory, disjoint from everything else that is live, contents intact until released)
      uint8_t* p = reinterpret_cast<uint8_t*>(w.chunk_pool.alloc(arena));
      if (!p) break;
      for (uint8_t* q : w.chunk_live) SIM_CHECK(q != p, "c18:pool-double-handout", "chunk pool handed out a chunk that is still live");
      bool recycled = w.chunk_released.erase(p) != 0;
      if (recycled) sim::count("c18.probe.chunk_recycled");
      check_new_raw(w, p, kChunkSize, "ArenaPool<T, 72>::alloc");
      RawBlock b{p, kChunkSize, sim::mix64(uint64_t(uintptr_t(p)) ^ w.raws.size()), false, kChunkSize};
      stamp_raw(b);
      w.raws.push_back(b);
      w.chunk_live.push_back(p);
      break;
    }
    case kChunkRelease: {
      if (w.chunk_live.empty()) break;
      size_t i = size_t(op.a[0]) % w.chunk_live.size();
      uint8_t* p = w.chunk_live[i];
      for (size_t k = 0; k < w.raws.size(); k++) if (w.raws[k].p == p) { w.raws.erase(w.raws.begin() + long(k)); break; }
      w.chunk_pool.release(reinterpret_cast<PoolHeader*>(p)); w.chunk_released.insert(p);
      w.chunk_live.erase(w.chunk_live.begin() + long(i));
      SIM_CHECK(w.chunk_pool.pooled_item_count() == w.chunk_released.size(), "c18:pool-count", "pooled_item_count() of the chunk pool is %zu, expected %zu", w.chunk_pool.pooled_item_count(), w.chunk_released.size());
      break;
    }
    case kPoolRelease: {
      if (w.pool_live.empty()) break;
      size_t i = size_t(op.a[0]) % w.pool_live.size();
      PoolItem* p = w.pool_live[i];
      w.pool.release(p); w.pool_released.insert(p);
      w.pool_live.erase(w.pool_live.begin() + long(i));
      SIM_CHECK(w.pool.pooled_item_count() == w.pool_released.size(), "c18:pool-count", "pooled_item_count() is %zu, expected %zu", w.pool.pooled_item_count(), w.pool_released.size());
      break;
    }

    case kRawOneshot: case kRawOneshotZeroed: {
      size_t size = Arena::aligned_size(size_t(op.a[0]));
      if (!size) size = 8;
      uint8_t* p = op.kind == kRawOneshot ? arena.alloc_oneshot<uint8_t>(size) : arena.alloc_oneshot_zeroed<uint8_t>(size);
      sim::logf("%s %zu -> %s", op_name(op.kind), size, p ? "ok" : "null");
      if (!p) break;
      check_new_raw(w, p, size, op_name(op.kind));
      if (op.kind == kRawOneshotZeroed) for (size_t i = 0; i < size; i++) SIM_CHECK(p[i] == 0, "c18:arena-zeroed", "alloc_oneshot_zeroed(%zu): byte %zu is not zero", size, i);
      RawBlock b{p, size, (w.stamp_counter++) << 20, false, size}; stamp_raw(b); w.raws.push_back(b);
      break;
    }
    case kRawReusable: case kRawReusableZeroed: {
      size_t size = size_t(op.a[0]); if (!size) size = 1;
      size_t allocated = 0;
      uint8_t* p = op.kind == kRawReusable ? arena.alloc_reusable<uint8_t>(size, Out(allocated)) : arena.alloc_reusable_zeroed<uint8_t>(size, Out(allocated));
      sim::logf("%s %zu -> %s allocated=%zu", op_name(op.kind), size, p ? "ok" : "null", allocated);
      if (!p) break;
      SIM_CHECK(allocated >= size, "c18:arena-allocated-size", "alloc_reusable(%zu) reported allocated_size %zu", size, allocated);
      check_new_raw(w, p, allocated, op_name(op.kind));
      if (op.kind == kRawReusableZeroed) for (size_t i = 0; i < allocated; i++) SIM_CHECK(p[i] == 0, "c18:arena-zeroed", "alloc_reusable_zeroed(%zu): byte %zu is not zero", size, i);
      if (size > Arena::kMaxReusableSlotSize) sim::count("c18.probe.dynamic_block_used");
      // Use the size the caller may legally use for free_reusable (either the requested or the allocated size).
      RawBlock b{p, allocated, (w.stamp_counter++) << 20, true, allocated}; stamp_raw(b);
      b.size = allocated; b.alloc_size = allocated;
      if (op.a[1] & 1) b.size = size;   // remember the requested size; free with it later
      w.raws.push_back(b);
      break;
    }
    case kRawFreeReusable: {
      std::vector<size_t> idx; for (size_t i = 0; i < w.raws.size(); i++) if (w.raws[i].reusable) idx.push_back(i);
      if (idx.empty()) break;
      size_t i = idx[size_t(op.a[0]) % idx.size()];
      RawBlock b = w.raws[i];
      check_raw_blocks(w);
      w.raws.erase(w.raws.begin() + long(i));
      if (b.alloc_size > Arena::kMaxReusableSlotSize) sim::count("c18.probe.dynamic_block_released");
      arena.free_reusable(b.p, b.size);
      sim::logf("raw_free_reusable %zu", b.size);
      break;
    }
    case kRawDup: {
      std::string t = gen_text(uint64_t(op.a[1]), size_t(op.a[0]));
      bool nt = op.a[2] & 1;
      char* p = static_cast<char*>(arena.dup(t.data(), t.size(), nt));
      if (t.empty()) { SIM_CHECK(p == nullptr, "c18:arena-dup", "dup() of zero bytes must return null"); break; }
      if (!p) break;
      size_t sz = Arena::aligned_size(t.size() + (nt ? 1 : 0));
      check_new_raw(w, reinterpret_cast<uint8_t*>(p), sz, "dup");
      SIM_CHECK(memcmp(p, t.data(), t.size()) == 0, "c18:arena-dup", "dup() content differs");
      if (nt) SIM_CHECK(p[t.size()] == 0, "c18:arena-dup", "dup() with null_terminate did not terminate");
      RawBlock b{reinterpret_cast<uint8_t*>(p), sz, (w.stamp_counter++) << 20, false, sz}; stamp_raw(b); w.raws.push_back(b);
      break;
    }
    case kRawSformat: {
      // mostly short texts; one in eight is longer than the 512-byte buffer sformat() formats into: the result may then be
      // cut (the function documents a maximum size), but it is a prefix of the text and nothing is overrun
      size_t len = size_t(op.a[0]) % 300; if ((op.a[2] & 7) == 7) len = 400 + size_t(op.a[0]) % 3000;
      std::string t = gen_text(uint64_t(op.a[1]), len);
      char* p = arena.sformat("%s-%u", t.c_str(), unsigned(op.a[2]));
      if (!p) break;
      std::string expect = t + "-" + std::to_string(unsigned(op.a[2]));
      size_t got = strlen(p);
      if (expect.size() < 500) SIM_CHECK(expect == p, "c18:arena-sformat", "sformat() produced '%s', expected '%s'", p, expect.c_str());
      else { SIM_CHECK(got <= expect.size() && got >= 255 && memcmp(p, expect.data(), got) == 0, "c18:arena-sformat", "sformat() of a %zu-character text produced %zu characters that are not a prefix of it", expect.size(), got); sim::count("c18.probe.sformat_longer_than_its_buffer"); }
      break;
    }
    case kArenaReset: {
      check_all(w);
      bool hard = op.a[0] & 1;
      // Probe: after a soft reset, does a later request skip a retained block?
      arena.reset(hard ? ResetPolicy::kHard : ResetPolicy::kSoft);
      arena_was_reset(w);
      sim::count(hard ? "c18.probe.reset_hard" : "c18.probe.reset_soft");
      sim::logf("arena_reset %s", hard ? "hard" : "soft");
      ArenaStatistics st = arena.statistics();
      SIM_CHECK(st.used_size() == 0 || w.static_buf, "c18:arena-statistics", "used_size is %zu right after reset", st.used_size());
      if (hard && !w.static_buf) SIM_CHECK(st.block_count() == 0 || st.reserved_size() == 0, "c18:arena-statistics", "hard reset left %zu blocks", st.block_count());
      break;
    }
    case kArenaStats: {
      ArenaStatistics st = arena.statistics();
      SIM_CHECK(st.reserved_size() >= st.used_size(), "c18:arena-statistics", "used_size %zu > reserved_size %zu", st.used_size(), st.reserved_size());
      // every managed block reachable from the arena must be live heap memory (or the static buffer)
      for (Arena::ManagedBlock* b = arena._first_block; b; b = b->next) {
        if (b->size == 0 && !b->next) break;
        bool is_static = w.static_buf && reinterpret_cast<uint8_t*>(b) == w.static_buf.get();
        if (!is_static && b->size) SIM_CHECK(sim::heap::find_block(b, nullptr), "c18:arena-freed-block-reachable", "a freed block is still linked into the arena's block list");
      }
      break;
    }

    case kStrAssign: case kStrAppend: case kStrAssignSpan: {
      size_t i = size_t(op.a[0]) & 3; String& s = w.str(i); std::string& m = w.str_model[i];
      std::string t = gen_text(uint64_t(op.a[2]), size_t(op.a[1]));
      Error e;
      if (op.kind == kStrAppend && (op.a[3] & 6) == 6 && !m.empty() && m.size() < 20000) {
        // the string (or a part of it) appended to itself - std::string::append(s) / append(s, pos, n) are well defined
        size_t pos = size_t(op.a[2]) % m.size(), n = (op.a[3] & 8) ? m.size() - pos : 1 + size_t(op.a[1]) % (m.size() - pos);
        if (op.a[3] & 8) pos = 0, n = m.size();
        t = m.substr(pos, n);
        e = (pos == 0 && n == m.size() && (op.a[3] & 1)) ? s.append(s) : s.append(s.data() + pos, n);
        if (e == Error::kOk) m += t;
        sim::count("c18.probe.string_appended_to_itself");
        sim::logf("str_append %zu to itself pos=%zu n=%zu err=%u", i, pos, n, unsigned(e));
        check_str(w, i, "after appending the string to itself");
        break;
      }
      if (op.kind == kStrAssign) e = (op.a[3] & 1) ? s.assign(t.c_str()) : s.assign(t.data(), t.size());
      else if (op.kind == kStrAssignSpan) e = s.assign(Span<const char>(t.data(), t.size()));
      else e = (op.a[3] & 1) ? s.append(t.c_str()) : s.append(t.data(), t.size());
      if (e == Error::kOk) { if (op.kind == kStrAppend) m += t; else m = t; }
      sim::logf("%s %zu len=%zu err=%u", op_name(op.kind), i, t.size(), unsigned(e));
      check_str(w, i, op_name(op.kind));
      break;
    }
    case kStrAssignChars: case kStrAppendChars: {
      size_t i = size_t(op.a[0]) & 3; String& s = w.str(i); std::string& m = w.str_model[i];
      char c = char('A' + (op.a[2] % 26)); size_t n = size_t(op.a[1]);
      Error e = op.kind == kStrAssignChars ? s.assign_chars(c, n) : s.append_chars(c, n);
      if (e == Error::kOk) { if (op.kind == kStrAssignChars) m.assign(n, c); else m.append(n, c); }
      sim::logf("%s %zu n=%zu err=%u", op_name(op.kind), i, n, unsigned(e));
      check_str(w, i, op_name(op.kind));
      break;
    }
    case kStrAppendNumber: {
      size_t i = size_t(op.a[0]) & 3; String& s = w.str(i); std::string& m = w.str_model[i];
      uint64_t v = uint64_t(op.a[1]); static const uint32_t bases[] = {0, 2, 8, 10, 16}; uint32_t base = bases[size_t(op.a[2]) % 5]; size_t width = size_t(op.a[3]) % 40;
      bool sgn = (op.a[2] >> 8) & 1; bool assign = (op.a[2] >> 9) & 1; uint32_t fl = uint32_t(op.a[2] >> 10) & 7;
      StringFormatFlags flags = StringFormatFlags(fl);
      Error e = assign ? (sgn ? s.assign_int(int64_t(v), base, width, flags) : s.assign_uint(v, base, width, flags)) : (sgn ? s.append_int(int64_t(v), base, width, flags) : s.append_uint(v, base, width, flags));
      // reference
      uint32_t b = base ? base : 10;
      uint64_t mag = v; char sign = 0;
      if (sgn && int64_t(v) < 0) { mag = uint64_t(0) - v; sign = '-'; } else if (fl & 1) sign = '+'; else if (fl & 2) sign = ' ';
      std::string digits; do { digits.insert(digits.begin(), "0123456789ABCDEF"[mag % b]); mag /= b; } while (mag);
      std::string prefix; if (sign) prefix += sign;
      if (fl & 4) { if (b == 8 && v != 0) prefix += "0"; if (b == 16) prefix += "0x"; }
      std::string pad; if (width > digits.size()) pad.assign(width - digits.size(), '0');
      std::string expect = prefix + pad + digits;
      if (e == Error::kOk) { if (assign) m = expect; else m += expect; }
      check_str(w, i, "number formatting");
      break;
    }
    case kStrAppendHex: {
      size_t i = size_t(op.a[0]) & 3; String& s = w.str(i); std::string& m = w.str_model[i];
      std::string t = gen_text(uint64_t(op.a[2]), size_t(op.a[1]) % 64); char sep = (op.a[3] & 1) ? ':' : '\0';
      Error e = s.append_hex(t.data(), t.size(), sep);
      std::string expect; for (size_t k = 0; k < t.size(); k++) { char b2[4]; snprintf(b2, sizeof b2, "%02X", unsigned(uint8_t(t[k]))); expect += b2; if (sep && k + 1 < t.size()) expect += sep; }
      if (e == Error::kOk) m += expect;
      check_str(w, i, "append_hex");
      break;
    }
    case kStrFormat: {
      size_t i = size_t(op.a[0]) & 3; String& s = w.str(i); std::string& m = w.str_model[i];
      std::string t = gen_text(uint64_t(op.a[2]), size_t(op.a[1]));
      bool assign = op.a[3] & 1;
      Error e = assign ? s.assign_format("%s|%d", t.c_str(), int(op.a[2] & 0xffff)) : s.append_format("%s|%d", t.c_str(), int(op.a[2] & 0xffff));
      std::string expect = t + "|" + std::to_string(int(op.a[2] & 0xffff));
      sim::logf("str_format %zu assign=%d len=%zu err=%u", i, int(assign), expect.size(), unsigned(e));
      if (e == Error::kOk) { if (assign) m = expect; else m += expect; check_str(w, i, "format"); }
      else {
        // A failed format (only possible under an injected allocation failure) must keep the string valid; for the
        // append form the previous content must survive.
        SIM_CHECK(sim::run_faults_fired_total() > 0, "c18:string-format", "format failed without an injected fault");
        if (!assign) check_str(w, i, "failed append_format");
        else { m.assign(s.data(), s.size()); }
      }
      break;
    }
    case kStrPadEnd: { size_t i = size_t(op.a[0]) & 3; size_t n = size_t(op.a[1]); Error e = w.str(i).pad_end(n, '.'); if (e == Error::kOk && n > w.str_model[i].size()) w.str_model[i].append(n - w.str_model[i].size(), '.'); check_str(w, i, "pad_end"); break; }
    case kStrTruncate: { size_t i = size_t(op.a[0]) & 3; size_t n = size_t(op.a[1]); (void)w.str(i).truncate(n); if (n < w.str_model[i].size()) w.str_model[i].resize(n); check_str(w, i, "truncate"); break; }
    case kStrClear: { size_t i = size_t(op.a[0]) & 3; (void)w.str(i).clear(); w.str_model[i].clear(); check_str(w, i, "clear"); break; }
    case kStrReset: { size_t i = size_t(op.a[0]) & 1; (void)w.str(i).reset(); w.str_model[i].clear(); check_str(w, i, "reset"); break; }
    case kStrSwap: { w.s0.swap(w.s1); w.str_model[0].swap(w.str_model[1]); check_str(w, 0, "swap"); check_str(w, 1, "swap"); break; }
    case kStrMoveAssign: { w.s0 = std::move(w.s1); w.str_model[0] = w.str_model[1]; w.str_model[1].clear(); check_str(w, 0, "move"); check_str(w, 1, "move"); break; }
    case kStrEquals: {
      size_t i = size_t(op.a[0]) & 3, j = size_t(op.a[1]) & 3;
      bool e = w.str(i).equals(w.str(j));
      SIM_CHECK(e == (w.str_model[i] == w.str_model[j]), "c18:string-equals", "equals() returned %d", int(e));
      SIM_CHECK(w.str(i).equals(w.str_model[i].c_str()), "c18:string-equals", "equals(const char*) is false for equal content");
      {
        // a string with an embedded NUL is longer than - and therefore different from - the C string that ends there
        String t;
        if (t.assign(w.str_model[j].data(), w.str_model[j].size()) == Error::kOk && t.append_chars('\0', 1) == Error::kOk && t.append(w.str_model[i].data(), w.str_model[i].size()) == Error::kOk && t.append("cd") == Error::kOk) {
          SIM_CHECK(!t.equals(t.data()), "c18:string-equals", "a %zu-byte string with an embedded NUL at %zu compares equal to the C string that ends at the NUL", t.size(), w.str_model[j].size());
          SIM_CHECK(t.equals(t.data(), t.size()) && !t.equals(w.str_model[j].c_str()), "c18:string-equals", "equals() of a string with an embedded NUL is wrong");
          sim::count("c18.probe.string_with_embedded_nul_compared");
        }
      }
      break;
    }
    case kAStrSet: {
      // lengths around the embedded / arena-allocated boundary of ArenaString<16> (11 characters) and well beyond it
      size_t alen = (op.a[3] & 1) ? size_t(7 + uint64_t(op.a[1]) % 9) : size_t(uint64_t(op.a[1]) % 48);
      std::string t = gen_text(uint64_t(op.a[2]), alen);
      Error e = w.astr.set_data(arena, t.data(), (op.a[2] & 1) ? SIZE_MAX : t.size());
      if (e == Error::kOk) w.astr_model = t;
      SIM_CHECK(w.astr.size() == w.astr_model.size() && memcmp(w.astr.data(), w.astr_model.data(), w.astr_model.size()) == 0, "c18:arenastring", "ArenaString differs from the model after set_data");
      SIM_CHECK(w.astr.data()[w.astr.size()] == 0, "c18:arenastring", "ArenaString is not NUL terminated");
      break;
    }
    default: break;
  }
}

void execute(const Plan& plan) {
  World w(plan);
  sim::set_knob_arena_block(size_t(plan.get("arena_block", 0)));
  sim::heap::configure(int(plan.get("junk", 0)), 0, int(plan.get("shift", 0)), plan.seed);
  sim::heap::arm(true);
  size_t static_size = size_t(plan.get("static", 0));
  size_t min_block = size_t(plan.get("min_block", 4096));
  if (static_size) {
    w.static_buf.reset(new uint8_t[static_size + 16]);
    w.static_size = static_size;
    // 8-aligned by operator new[]
    w.arena.reset(new Arena(min_block, Span<uint8_t>(w.static_buf.get(), static_size)));
  }
  else w.arena.reset(new Arena(min_block));
  w.hash_mask = uint32_t(plan.get("hash_mask", 0xffffffffll));
  w.vecs.emplace_back(new VecSlot<uint8_t>("u8")); w.vecs.emplace_back(new VecSlot<uint8_t>("u8"));
  w.vecs.emplace_back(new VecSlot<uint32_t>("u32")); w.vecs.emplace_back(new VecSlot<uint32_t>("u32"));
  w.vecs.emplace_back(new VecSlot<uint64_t>("u64")); w.vecs.emplace_back(new VecSlot<uint64_t>("u64"));
  w.vecs.emplace_back(new VecSlot<E24>("e24")); w.vecs.emplace_back(new VecSlot<E24>("e24"));

  for (size_t i = 0; i < plan.ops.size(); i++) {
    const Op& op = plan.ops[i];
    sim::begin_op(op, i);
    exec_op(w, op);
    sim::end_op();
    sim::add_steps(1);
    if (op.kind >= kRawOneshot && op.kind <= kArenaReset) check_raw_blocks(w);
    if ((i & 15) == 15) check_all(w);
  }
  sim::begin_op(Op(), plan.ops.size());
  check_all(w);
  if (!plan.ops.empty()) sim::mark_nontrivial();

  // Tear down: everything the arena and the strings own must be returned to the heap.
  arena_was_reset(w);
  w.arena.reset();
  (void)w.s0.reset(); (void)w.s1.reset(); (void)w.s2.reset(); (void)w.s3.reset();
  sim::heap::arm(false);
  SIM_CHECK(sim::heap::live_blocks_this_run() == 0, "c18:leak", "%zu heap block(s) obtained by the arena/strings were never freed:%s", sim::heap::live_blocks_this_run(), sim::heap::describe_live_blocks_this_run().c_str());
  sim::end_op();
}

// ---------------------------------------------------------------------------------------------------------------
// Generation
// ---------------------------------------------------------------------------------------------------------------

size_t gen_size(Rng& r) {
  switch (r.below(10)) {
    case 0: return size_t(r.below(4));
    case 1: case 2: case 3: return size_t(r.below(64));
    case 4: case 5: return size_t(r.below(600));
    case 6: return size_t(1u << r.below(13)) + size_t(r.below(3)) - 1;
    case 7: return size_t(2040 + r.below(20));
    case 8: return size_t(r.below(20000));
    default: return size_t(r.below(200));
  }
}

Plan generate(uint64_t seed, bool thorough) {
  Plan p;
  Rng cfg = sim::stream(seed, "cfg");
  Rng r = sim::stream(seed, "plan");
  static const int64_t blocks[] = {0, 1024, 1024, 2048, 4096, 16384, 65536};
  p.set("arena_block", blocks[cfg.below(7)]);
  p.set("min_block", 1024 << cfg.below(5));
  p.set("static", cfg.chance(1, 3) ? int64_t(64 + 8 * cfg.below(1200)) : 0);
  p.set("junk", int64_t(cfg.below(4)));
  p.set("shift", int64_t(cfg.below(6)));
  static const int64_t masks[] = {0xffffffffll, 0xffffffffll, 0xff, 0xf, 0x3, 0};
  p.set("hash_mask", masks[cfg.below(6)]);
  int fault_class = int(cfg.below(3));   // 0: fault free, 1: sparse faults, 2: dense faults
  p.set("fault_class", fault_class);

  // swarm: enable a random subset of container families
  uint32_t families = uint32_t(cfg.below(256)) | (1u << cfg.below(8));
  size_t nops = thorough ? size_t(4 + r.below(r.chance(1, 8) ? 1500 : 200)) : size_t(3 + r.below(r.chance(1, 10) ? 400 : 80));
  uint32_t key_space = uint32_t(1u << (2 + r.below(12)));
  int tree_pattern = int(r.below(3));   // 0 random, 1 ascending, 2 descending
  uint32_t tree_next = tree_pattern == 2 ? 100000u : 0u;
  uint64_t val_counter = 1;

  for (size_t i = 0; i < nops; i++) {
    Op op;
    int fam;
    do { fam = int(r.below(8)); } while (!(families & (1u << fam)));
    switch (fam) {
      case 0: {   // vectors
        static const uint16_t ks[] = {kVecAppend, kVecAppend, kVecAppend, kVecPrepend, kVecInsert, kVecRemoveAt, kVecPop, kVecResize, kVecReserve, kVecConcat, kVecSwap, kVecClear, kVecTruncate, kVecRelease, kVecAppendUnchecked};
        op.kind = r.pick(ks);
        op.a[0] = int64_t(r.below(8)); op.a[1] = int64_t(val_counter++ * 0x10001ull + r.below(7)); op.a[2] = int64_t(op.kind == kVecResize || op.kind == kVecReserve ? gen_size(r) % 5000 : r.below(4096)); op.a[3] = int64_t(r.below(6));
        break;
      }
      case 1: { static const uint16_t ks[] = {kHashInsert, kHashInsert, kHashInsert, kHashRemove, kHashGet, kHashGet, kHashRelease, kHashSwap}; op.kind = r.pick(ks); if (op.kind == kHashRelease && !r.chance(1, 6)) op.kind = kHashInsert; op.a[0] = int64_t(r.below(key_space)); break; }
      case 2: {
        static const uint16_t ks[] = {kTreeInsert, kTreeInsert, kTreeInsert, kTreeRemove, kTreeRemove, kTreeGet}; op.kind = r.pick(ks);
        if (op.kind == kTreeInsert && tree_pattern == 1) op.a[0] = int64_t(tree_next++); else if (op.kind == kTreeInsert && tree_pattern == 2) op.a[0] = int64_t(tree_next--); else op.a[0] = int64_t(r.below(key_space));
        break;
      }
      case 3: { static const uint16_t ks[] = {kListAppend, kListPrepend, kListInsertBefore, kListInsertAfter, kListUnlink, kListPop, kListPopFirst}; op.kind = r.pick(ks); op.a[0] = int64_t(val_counter++); op.a[1] = int64_t(r.below(1000)); break; }
      case 4: {
        static const uint16_t ks[] = {kBitResize, kBitResize, kBitAppend, kBitAppend, kBitSetBit, kBitFillBits, kBitClearBits, kBitFillAll, kBitClearAll, kBitAnd, kBitOr, kBitAndNot, kBitCopyFrom, kBitTruncate, kBitClear, kBitSwap, kBitRelease, kBitEquals, kBitIterate, kBitIterate};
        op.kind = r.pick(ks); op.a[0] = int64_t(r.below(2)); op.a[1] = int64_t(r.chance(1, 4) ? r.below(2000) : r.below(200)); op.a[2] = int64_t(r.below(1000)); op.a[3] = int64_t(r.below(4));
        break;
      }
      case 5: { if (r.chance(1, 2)) op.kind = r.chance(3, 5) ? kPoolAlloc : kPoolRelease; else op.kind = r.chance(3, 5) ? kChunkAlloc : kChunkRelease; op.a[0] = int64_t(r.below(1000)); break; }
      case 6: {
        static const uint16_t ks[] = {kRawOneshot, kRawOneshot, kRawOneshotZeroed, kRawReusable, kRawReusable, kRawReusableZeroed, kRawFreeReusable, kRawFreeReusable, kRawDup, kRawSformat, kArenaReset, kArenaStats};
        op.kind = r.pick(ks);
        if (op.kind == kArenaReset && !r.chance(1, 3)) op.kind = kRawOneshot;
        op.a[0] = int64_t(op.kind == kArenaReset ? r.below(2) : (op.kind == kRawFreeReusable ? r.below(1000) : gen_size(r))); op.a[1] = int64_t(r.next() & 0xffffff); op.a[2] = int64_t(r.below(100000));
        break;
      }
      default: {
        static const uint16_t ks[] = {kStrAssign, kStrAppend, kStrAppend, kStrAssignChars, kStrAppendChars, kStrAppendNumber, kStrAppendHex, kStrFormat, kStrFormat, kStrPadEnd, kStrTruncate, kStrClear, kStrReset, kStrSwap, kStrMoveAssign, kStrEquals, kStrAssignSpan, kAStrSet};
        op.kind = r.pick(ks);
        op.a[0] = int64_t(r.below(4));
        size_t len;
        switch (r.below(6)) { case 0: len = 0; break; case 1: len = size_t(r.below(40)); break; case 2: len = size_t(20 + r.below(120)); break; case 3: len = size_t(100 + r.below(200)); break; case 4: len = size_t(r.below(1100)); break; default: len = size_t(r.below(80)); }
        op.a[1] = int64_t(op.kind == kStrAppendNumber ? int64_t(r.chance(1, 4) ? r.next() : r.below(100000)) * (r.chance(1, 3) ? -1 : 1) : int64_t(len));
        op.a[2] = int64_t(r.next() & 0x7fffffff); op.a[3] = int64_t(r.below(64));
        break;
      }
    }
    // faults attached to the operation
    if (fault_class) {
      uint32_t den = fault_class == 1 ? 24 : 5;
      if (r.chance(1, den)) op.faults.push_back(sim::Fault{sim::kFaultArena, uint32_t(r.below(3)), 0});
      if (r.chance(1, den)) op.faults.push_back(sim::Fault{sim::kFaultMalloc, uint32_t(r.below(2)), 0});
    }
    p.ops.push_back(op);
  }
  return p;
}

void shrink(const Plan& p, std::vector<Plan>& out) {
  // simplify configuration
  static const char* const zero_keys[] = {"junk", "shift", "static", "arena_block"};
  for (const char* k : zero_keys) if (p.get(k)) { Plan q = p; q.set(k, 0); out.push_back(q); }
  if (p.get("hash_mask") != 0xffffffffll) { Plan q = p; q.set("hash_mask", 0xffffffffll); out.push_back(q); }
}

std::string summary(const Plan& p) { return std::to_string(p.ops.size()) + " ops"; }

const sim::Scenario kScenario = {"C18", "containers", "asan", 200000, 4000000, generate, execute, op_name, shrink, summary};
sim::Registrar reg(kScenario);

const char* const kAssumptions[] = {
  "Operations the API documents as caller errors are not generated (out-of-range indexes, *_unchecked without capacity, use after arena reset).",
  "ASan cannot see overruns that stay inside one arena block; stamps in raw blocks and model equality of neighbouring containers stand in for it.",
  nullptr};
const char* const kReal[] = {"asmjit Arena, ArenaVector, ArenaHash, ArenaTree, ArenaList, ArenaBitSet, ArenaPool, ArenaString, String/StringTmp (built from /repo with -DASMJIT_VERIF)", "libc heap behind SimHeap", nullptr};
const char* const kStub[] = {"SimHeap failure decisions, junk fill and address shifts", "H1 arena fault point, H3 arena block size knob", nullptr};
const sim::PropInfo kInfo = {"C18", "exploration",
  "Each run is one seed: a configuration (arena block size, static/dynamic arena, heap junk fill, hash collision mask, enabled container families, fault class) and a history of 3..1500 operations over 8 vectors, a hash table, a red-black tree, a list, two bit sets, an object pool, raw arena blocks and five strings sharing one arena, with arena/malloc faults attached to operations. "
  "After every operation the touched container is compared with its std:: model and its structural invariants; all containers every 16 operations and at the end. A run is non-trivial when it executed at least one operation; distinct = distinct event-log hashes.",
  kAssumptions, kReal, kStub};
sim::PropInfoRegistrar reginfo(kInfo);

} // namespace
