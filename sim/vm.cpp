// SimVM: the simulated kernel memory manager. Memory is real (mapped with the real mmap at MAP_FIXED_NOREPLACE on an
// address the simulator chose; file-backed mappings use a real memfd) so JIT code can execute and RX/RW views really
// alias, but where, whether and with what error a request is served is the simulator's decision.
#include "sim/sim.h"
#include "sim/internal.h"

#include <errno.h>
#include <fcntl.h>
#include <stdarg.h>
#include <string.h>
#include <sys/mman.h>
#include <sys/syscall.h>
#include <unistd.h>
#include <map>

#ifndef MAP_FIXED_NOREPLACE
#define MAP_FIXED_NOREPLACE 0x100000
#endif
#ifndef MAP_HUGETLB
#define MAP_HUGETLB 0x40000
#endif
#ifndef MAP_HUGE_SHIFT
#define MAP_HUGE_SHIFT 26
#endif
#ifndef MFD_CLOEXEC
#define MFD_CLOEXEC 1u
#endif

extern "C" {
void* __real_mmap(void*, size_t, int, int, int, off_t);
int __real_munmap(void*, size_t);
int __real_mprotect(void*, size_t, int);
int __real_madvise(void*, size_t, int);
long __real_syscall(long, ...);
int __real_shm_open(const char*, int, mode_t);
int __real_shm_unlink(const char*);
int __real_open64(const char*, int, ...);
int __real_open(const char*, int, ...);
int __real_unlink(const char*);
int __real_ftruncate64(int, off_t);
int __real_ftruncate(int, off_t);
int __real_close(int);
ssize_t __real_read(int, void*, size_t);
int __real_getpagesize(void);
}

namespace sim {
namespace vm {

static const Profile kProfiles[kProfileCount] = {
  {0, 0, 0},
  {1, 0, 0},
  {0, 1, 1},
  {1, 2, 0},
};

struct WindowDef { uintptr_t base; size_t size; };
static const WindowDef kWindows[kWinCount] = {
  {0x10000000ull, 0x40000000ull},           // low: below 2 GiB
  {0x7e9000000000ull, 0x1000000000ull},     // high: 2^46..2^47
  {0x60000000ull, 0x40000000ull},           // straddles 2^31
  {0xC0000000ull, 0x80000000ull},           // straddles 2^32
  {0x200000000000ull, 0x1000000000ull},     // mid (2^45)
};

struct Fd { uint64_t file_id; int type; /*0 memfd,1 shm,2 tmp,3 sysfs*/ uint64_t gen; size_t op; };

struct State {
  int profile = 0;
  bool armed = false;
  int window = kWinLow;
  int policy = kAscending;
  int hugetlb_grant = 0;
  Rng rng;
  uintptr_t cursor = 0;
  uint64_t gen = 1;
  uint64_t serial = 0;
  uint64_t next_file_id = 1;
  std::map<uintptr_t, Mapping> maps;
  std::map<int, Fd> fds;
  std::map<int, bool> closed_fds;   // descriptors handed out by the simulator that asmjit closed (double-close detection)
  bool pending_valid = false;
  size_t pending_size = 0;
  uintptr_t pending_addr = 0;
  bool pending_huge = false;
  uintptr_t harness_cursor[kWinCount] = {};
  Observer observer = nullptr;
  void* observer_ctx = nullptr;
};
static State& st() { static State* s = new State(); return *s; }

void set_profile(int index) { st().profile = index % kProfileCount; }
int profile_index() { return st().profile; }
Profile profile() { return kProfiles[st().profile]; }

bool window_available(int w) {
#if defined(SIM_FLAVOUR_ASAN) || defined(SIM_FLAVOUR_DBG)
  return w == kWinLow || w == kWinHigh;
#elif defined(SIM_FLAVOUR_TSAN)
  return w == kWinLow || w == kWinHigh || w == kWinStraddle31 || w == kWinStraddle32;
#else
  return w >= 0 && w < kWinCount;
#endif
}

static constexpr size_t kGran = 65536;

static void init_cursor() {
  State& s = st();
  const WindowDef& w = kWindows[s.window];
  // The upper half of each window is reserved for harness mappings (stubs, data), the lower half for asmjit.
  size_t half = w.size / 2;
  uintptr_t off = uintptr_t(s.rng.below(half / 4 / kGran)) * kGran;
  switch (s.policy) {
    case kDescending: s.cursor = w.base + half - off; break;
    default: s.cursor = w.base + off; break;
  }
  if (s.window == kWinStraddle31 || s.window == kWinStraddle32) {
    // Make the first block cross the boundary in the middle of the window.
    uintptr_t boundary = w.base + w.size / 2;
    // asmjit half is then [boundary - size/4, boundary + size/4); harness half is the rest (top quarter).
    s.cursor = s.policy == kDescending ? boundary + 0x20000 : boundary - 0x10000 - uintptr_t(s.rng.below(4)) * kGran;
  }
}

void configure(int window, int policy, int hugetlb_grant, uint64_t seed) {
  State& s = st();
  s.window = window_available(window) ? window : kWinLow;
  s.policy = policy % kPolicyCount;
  s.hugetlb_grant = hugetlb_grant;
  s.rng = Rng(mix64(seed ^ 0x766d766d766dull));
  s.pending_valid = false;
  init_cursor();
}

void arm(bool on) { st().armed = on; }
void set_observer(Observer fn, void* ctx) { st().observer = fn; st().observer_ctx = ctx; }
bool armed() { return st().armed; }

static bool overlaps(uintptr_t a, size_t n) {
  State& s = st();
  auto it = s.maps.lower_bound(a);
  if (it != s.maps.end() && it->first < a + n) return true;
  if (it != s.maps.begin()) { --it; if (it->first + it->second.size > a) return true; }
  return false;
}

static uintptr_t asmjit_lo() {
  State& s = st(); const WindowDef& w = kWindows[s.window];
  if (s.window == kWinStraddle31 || s.window == kWinStraddle32) return w.base + w.size / 4;
  return w.base;
}
static uintptr_t asmjit_hi() {
  State& s = st(); const WindowDef& w = kWindows[s.window];
  if (s.window == kWinStraddle31 || s.window == kWinStraddle32) return w.base + w.size / 4 * 3;
  return w.base + w.size / 2;
}

static uintptr_t choose(size_t size, bool huge) {
  State& s = st();
  size_t n = (size + 4095) & ~size_t(4095);
  size_t align = huge ? (size_t(2) << 20) : 4096;
  uintptr_t lo = asmjit_lo(), hi = asmjit_hi();
  for (int attempt = 0; attempt < 256; attempt++) {
    uintptr_t a;
    switch (s.policy) {
      case kDescending: a = (s.cursor - n) & ~uintptr_t(align - 1); break;
      case kScattered: a = lo + uintptr_t(s.rng.below((hi - lo - n) / kGran)) * kGran; a &= ~uintptr_t(align - 1); break;
      case kAscendingGaps: a = s.cursor + uintptr_t(s.rng.below(17)) * 4096; a = (a + align - 1) & ~uintptr_t(align - 1); break;
      default: a = (s.cursor + align - 1) & ~uintptr_t(align - 1); break;
    }
    if (a < lo || a + n > hi) {
      // wrap around inside the window (keeps the run going on very long histories)
      s.cursor = s.policy == kDescending ? hi : lo;
      continue;
    }
    if (overlaps(a, n)) {
      if (s.policy == kDescending) s.cursor = a; else if (s.policy != kScattered) s.cursor = a + n;
      continue;
    }
    return a;
  }
  return 0;
}

static void consume(uintptr_t a, size_t size) {
  State& s = st();
  size_t n = (size + 4095) & ~size_t(4095);
  if (s.policy == kDescending) s.cursor = a; else if (s.policy != kScattered) s.cursor = a + n;
}

uintptr_t peek_next_placement(size_t size) {
  State& s = st();
  if (!s.pending_valid || s.pending_size != size) {
    s.pending_addr = choose(size, false);
    s.pending_size = size;
    s.pending_huge = false;
    s.pending_valid = true;
  }
  return s.pending_addr;
}

bool find_mapping(const void* p, Mapping* out) {
  State& s = st();
  uintptr_t a = uintptr_t(p);
  auto it = s.maps.upper_bound(a);
  if (it == s.maps.begin()) return false;
  --it;
  if (a >= it->first + it->second.size) return false;
  if (out) *out = it->second;
  return true;
}

std::vector<Mapping> mappings_this_run() {
  State& s = st();
  std::vector<Mapping> out;
  for (auto& kv : s.maps) if (kv.second.gen == s.gen) out.push_back(kv.second);
  return out;
}

size_t live_mappings_this_run() {
  State& s = st(); size_t n = 0;
  for (auto& kv : s.maps) if (kv.second.gen == s.gen && !kv.second.excused) n++;
  return n;
}

size_t live_fds_this_run() {
  State& s = st(); size_t n = 0;
  for (auto& kv : s.fds) if (kv.second.gen == s.gen) n++;
  return n;
}

std::string describe_leaks() {
  State& s = st();
  std::string out;
  char b[128];
  for (auto& kv : s.maps) if (kv.second.gen == s.gen && !kv.second.excused) { snprintf(b, sizeof b, " map[addr=%#zx size=%zu op=%zu]", size_t(kv.first), kv.second.size, kv.second.op); out += b; }
  for (auto& kv : s.fds) if (kv.second.gen == s.gen) { snprintf(b, sizeof b, " fd[type=%d op=%zu]", kv.second.type, kv.second.op); out += b; }
  return out;
}

void reset_run_generation() {
  State& s = st();
  s.gen++;
  s.armed = false;
  s.observer = nullptr; s.observer_ctx = nullptr;
  s.next_file_id = 1;
  s.closed_fds.clear();
  for (auto& c : s.harness_cursor) c = 0;
  s.pending_valid = false;
  s.window = kWinLow; s.policy = kAscending; s.hugetlb_grant = 0;
  s.rng = Rng(1);
  init_cursor();
}

void end_run_cleanup() {
  State& s = st();
  for (auto it = s.maps.begin(); it != s.maps.end();) {
    if (it->second.gen == s.gen) { __real_munmap(reinterpret_cast<void*>(it->first), it->second.size); it = s.maps.erase(it); }
    else ++it;
  }
  for (auto it = s.fds.begin(); it != s.fds.end();) {
    if (it->second.gen == s.gen) { __real_close(it->first); it = s.fds.erase(it); }
    else ++it;
  }
}

void* harness_map(int window, size_t size, int prot) {
  State& s = st();
  if (!window_available(window)) return nullptr;
  const WindowDef& w = kWindows[window];
  bool straddle = window == kWinStraddle31 || window == kWinStraddle32;
  uintptr_t lo = straddle ? w.base + w.size / 4 * 3 : w.base + w.size / 2;
  uintptr_t hi = w.base + w.size;
  size_t n = (size + 4095) & ~size_t(4095);
  if (s.harness_cursor[window] < lo || s.harness_cursor[window] + n > hi) s.harness_cursor[window] = lo;
  for (int attempt = 0; attempt < 64; attempt++) {
    uintptr_t a = s.harness_cursor[window];
    s.harness_cursor[window] += n + 4096;
    if (a + n > hi) { s.harness_cursor[window] = lo; continue; }
    void* p = __real_mmap(reinterpret_cast<void*>(a), n, prot, MAP_PRIVATE | MAP_ANONYMOUS | MAP_FIXED_NOREPLACE, -1, 0);
    if (p != MAP_FAILED) {
      if (uintptr_t(p) != a) { __real_munmap(p, n); continue; }
      return p;
    }
  }
  return nullptr;
}

void harness_unmap(void* p, size_t size) { __real_munmap(p, (size + 4095) & ~size_t(4095)); }

static int new_fd(int type) {
  State& s = st();
  int fd = int(__real_syscall(SYS_memfd_create, "simvm", MFD_CLOEXEC));
  if (fd < 0) return -1;
  Fd f{s.next_file_id++, type, s.gen, g.in_run ? current_op_index() : 0};
  s.fds[fd] = f;
  s.closed_fds.erase(fd);
  return fd;
}

} // namespace vm
} // namespace sim

using namespace sim;

extern "C" void* __wrap_mmap(void* addr, size_t len, int prot, int flags, int fd, off_t off) {
  vm::State& s = vm::st();
  if (!s.armed || addr != nullptr) return __real_mmap(addr, len, prot, flags, fd, off);
  HarnessScope hs;
  if (g.in_run) sched_point(kSchedVM);
  int32_t arg = 0;
  if (g.in_run && fault_fires(kFaultMmap, &arg)) { errno = arg ? arg : ENOMEM; return MAP_FAILED; }
  vm::Profile pf = vm::profile();
  if (pf.hardened && (prot & PROT_WRITE) && (prot & PROT_EXEC)) { count("vm.rwx_refused"); errno = EACCES; return MAP_FAILED; }
  uint64_t file_id = 0;
  if (fd >= 0) {
    auto it = s.fds.find(fd);
    if (it == s.fds.end()) fail("vm:mmap-unknown-fd", "mmap() with a descriptor (%d) the simulator did not hand out or that was closed", fd);
    file_id = it->second.file_id;
    if (pf.memfd == 2 && it->second.type == 1 && (prot & PROT_EXEC)) { count("vm.shm_noexec"); errno = EINVAL; return MAP_FAILED; }
  }
  bool huge = (flags & MAP_HUGETLB) != 0;
  if (huge) {
    count("vm.hugetlb_requested");
    if (!s.hugetlb_grant) { errno = ENOMEM; return MAP_FAILED; }
    if (len % (size_t(2) << 20)) { errno = EINVAL; return MAP_FAILED; }
    count("vm.hugetlb_granted");
    flags &= ~(MAP_HUGETLB | (0x3f << MAP_HUGE_SHIFT));
  }
  uintptr_t want;
  if (s.pending_valid && s.pending_size == len && !huge) { want = s.pending_addr; s.pending_valid = false; }
  else want = vm::choose(len, huge);
  if (!want) {
    // The simulated address-space window is exhausted: a legitimate ENOMEM, accounted like an injected fault so that
    // oracles which demand success in fault-free runs know about it.
    count("vm.window_exhausted");
    if (g.in_run) { g.fired[kFaultMmap]++; logf("mmap +%zu: window exhausted", len); }
    errno = ENOMEM;
    return MAP_FAILED;
  }
  void* p = __real_mmap(reinterpret_cast<void*>(want), len, prot, flags | MAP_FIXED_NOREPLACE, fd, off);
  if (p == MAP_FAILED) {
    int e = errno;
    fail("harness:vm-placement", "simulated placement at %#zx (%zu bytes) was refused by the real kernel: errno=%d", size_t(want), len, e);
  }
  if (uintptr_t(p) != want) fail("harness:vm-placement", "kernel ignored MAP_FIXED_NOREPLACE");
  vm::consume(want, len);
  vm::Mapping m{want, len, prot, file_id, s.gen, g.in_run ? current_op_index() : 0, false, huge, s.serial++};
  s.maps[want] = m;
  if (g.in_run) logf("mmap %#zx +%zu prot=%d file=%llu", size_t(want), len, prot, (unsigned long long)file_id);
  if (s.observer) s.observer(s.observer_ctx, true, m);
  return p;
}

extern "C" int __wrap_munmap(void* addr, size_t len) {
  vm::State& s = vm::st();
  if (!s.armed) return __real_munmap(addr, len);
  HarnessScope hs;
  auto it = s.maps.find(uintptr_t(addr));
  if (it == s.maps.end()) {
    if (g.in_run) fail("vm:bad-munmap", "munmap(%#zx, %zu): no live mapping starts there (double unmap or wild pointer)", size_t(addr), len);
    return __real_munmap(addr, len);
  }
  if (it->second.size != len && g.in_run) fail("vm:bad-munmap-length", "munmap(%#zx, %zu): mapping has %zu bytes", size_t(addr), len, it->second.size);
  if (g.in_run) {
    sched_point(kSchedVM);
    if (fault_fires(kFaultMunmap)) {
      // The caller cannot do anything about a failed munmap: the mapping stays (excused from the leak check) and the
      // observer is told that the owner gave it up.
      it->second.excused = true;
      if (s.observer) s.observer(s.observer_ctx, false, it->second);
      errno = EINVAL;
      return -1;
    }
    logf("munmap %#zx +%zu", size_t(addr), len);
  }
  vm::Mapping gone = it->second;
  s.maps.erase(it);
  if (s.observer) s.observer(s.observer_ctx, false, gone);
  return __real_munmap(addr, len);
}

extern "C" int __wrap_mprotect(void* addr, size_t len, int prot) {
  vm::State& s = vm::st();
  if (!s.armed) return __real_mprotect(addr, len, prot);
  HarnessScope hs;
  if (g.in_run && fault_fires(kFaultMprotect)) { errno = EACCES; return -1; }
  vm::Mapping m;
  if (!vm::find_mapping(addr, &m) || uintptr_t(addr) + len > m.addr + m.size) {
    if (g.in_run) fail("vm:bad-mprotect", "mprotect(%#zx, %zu) outside a live mapping", size_t(addr), len);
  }
  return __real_mprotect(addr, len, prot);
}

extern "C" int __wrap_madvise(void* addr, size_t len, int advice) {
  vm::State& s = vm::st();
  if (!s.armed) return __real_madvise(addr, len, advice);
  // Advice only; the simulator accepts it silently (the real call could fail for non-THP kernels).
  return 0;
}

// Reads six variadic slots regardless of how many the caller passed (like libc's syscall()), hence no ASan here.
extern "C" __attribute__((no_sanitize("address"))) long __wrap_syscall(long number, ...) {
  va_list ap; va_start(ap, number);
  long a0 = va_arg(ap, long), a1 = va_arg(ap, long), a2 = va_arg(ap, long), a3 = va_arg(ap, long), a4 = va_arg(ap, long), a5 = va_arg(ap, long);
  va_end(ap);
  vm::State& s = vm::st();
  if (number == SYS_memfd_create && s.armed) {
    HarnessScope hs;
    if (vm::profile().memfd != 0) { count("vm.memfd_enosys"); errno = ENOSYS; return -1; }
    if (g.in_run) sched_point(kSchedVM);
    int32_t arg = 0;
    if (g.in_run && fault_fires(kFaultMemfd, &arg)) { errno = arg ? arg : EMFILE; return -1; }
    int fd = vm::new_fd(0);
    if (fd < 0) fail("harness:memfd", "real memfd_create failed: errno=%d", errno);
    return fd;
  }
  return __real_syscall(number, a0, a1, a2, a3, a4, a5);
}

static int sim_open_anon(int type) {
  int32_t arg = 0;
  if (g.in_run) sched_point(kSchedVM);
  if (g.in_run && fault_fires(kFaultShmOpen, &arg)) { errno = arg ? arg : EMFILE; return -1; }
  int fd = vm::new_fd(type);
  if (fd < 0) fail("harness:memfd", "real memfd_create failed: errno=%d", errno);
  return fd;
}

extern "C" int __wrap_shm_open(const char* name, int oflag, mode_t mode) {
  vm::State& s = vm::st();
  if (!s.armed) return __real_shm_open(name, oflag, mode);
  HarnessScope hs;
  count("vm.shm_open");
  return sim_open_anon(1);
}

extern "C" int __wrap_shm_unlink(const char* name) {
  vm::State& s = vm::st();
  if (!s.armed) return __real_shm_unlink(name);
  return 0;
}

static const char kHugeSysfs[] = "/sys/kernel/mm/transparent_hugepage/hpage_pmd_size";

static int sim_open(const char* path, int flags, mode_t mode, bool is64) {
  vm::State& s = vm::st();
  if (s.armed && path && !strcmp(path, kHugeSysfs)) {
    HarnessScope hs;
    vm::Profile pf = vm::profile();
    if (pf.hugepage == 0) { errno = ENOENT; return -1; }
    int fd = vm::new_fd(3);
    if (fd < 0) return -1;
    const char* text = pf.hugepage == 1 ? "2097152\n" : "lots\n";
    if (write(fd, text, strlen(text)) < 0) { /* ignore */ }
    lseek(fd, 0, SEEK_SET);
    return fd;
  }
  if (s.armed && (flags & O_CREAT) && (flags & O_EXCL)) {
    HarnessScope hs;
    count("vm.tmp_open");
    return sim_open_anon(2);
  }
  return is64 ? __real_open64(path, flags, mode) : __real_open(path, flags, mode);
}

extern "C" int __wrap_open64(const char* path, int flags, ...) {
  va_list ap; va_start(ap, flags); mode_t mode = mode_t(va_arg(ap, int)); va_end(ap);
  return sim_open(path, flags, mode, true);
}

extern "C" int __wrap_open(const char* path, int flags, ...) {
  va_list ap; va_start(ap, flags); mode_t mode = mode_t(va_arg(ap, int)); va_end(ap);
  return sim_open(path, flags, mode, false);
}

extern "C" int __wrap_unlink(const char* path) {
  vm::State& s = vm::st();
  if (!s.armed) return __real_unlink(path);
  return 0;   // simulated tmp files have no name in the real file system
}

static int sim_ftruncate(int fd, off_t len, bool is64) {
  vm::State& s = vm::st();
  if (s.armed && s.fds.count(fd)) {
    HarnessScope hs;
    int32_t arg = 0;
    if (g.in_run) sched_point(kSchedVM);
    if (g.in_run && fault_fires(kFaultFtruncate, &arg)) { errno = arg ? arg : ENOSPC; return -1; }
  }
  return is64 ? __real_ftruncate64(fd, len) : __real_ftruncate(fd, len);
}

extern "C" int __wrap_ftruncate64(int fd, off_t len) { return sim_ftruncate(fd, len, true); }
extern "C" int __wrap_ftruncate(int fd, off_t len) { return sim_ftruncate(fd, len, false); }

extern "C" int __wrap_close(int fd) {
  vm::State& s = vm::st();
  auto it = s.fds.find(fd);
  if (it != s.fds.end()) { s.fds.erase(it); s.closed_fds[fd] = true; }
  else if (s.armed && g.in_run && s.closed_fds.count(fd)) fail("vm:double-close", "close(%d): descriptor was already closed", fd);
  return __real_close(fd);
}

extern "C" ssize_t __wrap_read(int fd, void* buf, size_t n) { return __real_read(fd, buf, n); }
extern "C" int __wrap_getpagesize(void) { return __real_getpagesize(); }
