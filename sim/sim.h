// simkit - deterministic simulation core for the asmjit verification harness.
//
// One run = one seed -> one configuration -> one plan -> one execution of real asmjit code against a model, with
// every seam decision (heap, arena, VM, scheduler) drawn from PRNG streams derived from that seed.
#ifndef SIM_SIM_H
#define SIM_SIM_H

#include <stdint.h>
#include <stddef.h>
#include <stdarg.h>
#include <string>
#include <vector>
#include <map>
#include <utility>

namespace sim {

// ---------------------------------------------------------------------------------------------------------------
// PRNG (splitmix64) and stream derivation. One integer decides everything.
// ---------------------------------------------------------------------------------------------------------------

static inline uint64_t mix64(uint64_t z) {
  z += 0x9E3779B97F4A7C15ull;
  z = (z ^ (z >> 30)) * 0xBF58476D1CE4E5B9ull;
  z = (z ^ (z >> 27)) * 0x94D049BB133111EBull;
  return z ^ (z >> 31);
}

static inline uint64_t hash_bytes(const void* p, size_t n, uint64_t h = 0xcbf29ce484222325ull) {
  const uint8_t* b = static_cast<const uint8_t*>(p);
  for (size_t i = 0; i < n; i++) { h ^= b[i]; h *= 0x100000001b3ull; }
  return h;
}

static inline uint64_t hash_str(const char* s) {
  uint64_t h = 0xcbf29ce484222325ull;
  while (*s) { h ^= uint8_t(*s++); h *= 0x100000001b3ull; }
  return h;
}

struct Rng {
  uint64_t s;
  explicit Rng(uint64_t seed = 0) : s(seed) {}
  uint64_t next() { s += 0x9E3779B97F4A7C15ull; uint64_t z = s; z = (z ^ (z >> 30)) * 0xBF58476D1CE4E5B9ull; z = (z ^ (z >> 27)) * 0x94D049BB133111EBull; return z ^ (z >> 31); }
  uint64_t below(uint64_t n) { return n ? next() % n : 0; }
  int64_t range(int64_t lo, int64_t hi) { return lo + int64_t(below(uint64_t(hi - lo) + 1)); }
  bool chance(uint32_t num, uint32_t den) { return below(den) < num; }
  template<typename T> const T& pick(const std::vector<T>& v) { return v[below(v.size())]; }
  template<typename T, size_t N> const T& pick(const T (&v)[N]) { return v[below(N)]; }
};

static inline Rng stream(uint64_t run_seed, const char* name) { return Rng(mix64(run_seed ^ hash_str(name))); }

// ---------------------------------------------------------------------------------------------------------------
// Minimal JSON (writer + parser) - replay files and evidence.
// ---------------------------------------------------------------------------------------------------------------

struct Json {
  enum Type { kNull, kBool, kInt, kDouble, kString, kArray, kObject } type = kNull;
  bool b = false;
  int64_t i = 0;
  double d = 0;
  std::string s;
  std::vector<Json> a;
  std::vector<std::pair<std::string, Json>> o;

  Json() {}
  static Json Bool(bool v) { Json j; j.type = kBool; j.b = v; return j; }
  static Json Int(int64_t v) { Json j; j.type = kInt; j.i = v; return j; }
  static Json Double(double v) { Json j; j.type = kDouble; j.d = v; return j; }
  static Json Str(const std::string& v) { Json j; j.type = kString; j.s = v; return j; }
  static Json Array() { Json j; j.type = kArray; return j; }
  static Json Object() { Json j; j.type = kObject; return j; }

  Json& set(const std::string& k, const Json& v) { for (auto& kv : o) if (kv.first == k) { kv.second = v; return *this; } o.emplace_back(k, v); return *this; }
  Json& push(const Json& v) { a.push_back(v); return *this; }
  const Json* get(const std::string& k) const { for (auto& kv : o) if (kv.first == k) return &kv.second; return nullptr; }
  int64_t get_int(const std::string& k, int64_t def = 0) const { const Json* j = get(k); return j && j->type == kInt ? j->i : (j && j->type == kDouble ? int64_t(j->d) : def); }
  std::string get_str(const std::string& k, const std::string& def = "") const { const Json* j = get(k); return j && j->type == kString ? j->s : def; }

  std::string dump(int indent = -1) const;
  static bool parse(const std::string& text, Json& out, std::string* err = nullptr);
};

bool read_file(const std::string& path, std::string& out);
bool write_file(const std::string& path, const std::string& data);

// ---------------------------------------------------------------------------------------------------------------
// Plans: operations with faults attached.
// ---------------------------------------------------------------------------------------------------------------

enum FaultKind : uint8_t {
  kFaultArena = 0,   // H1 arena request
  kFaultMalloc,      // malloc
  kFaultRealloc,     // realloc
  kFaultMmap,        // mmap (any view)
  kFaultMunmap,      // munmap returns EINVAL (mapping is still removed by the simulator's accounting rules, see simvm)
  kFaultMemfd,       // memfd_create
  kFaultFtruncate,   // ftruncate
  kFaultShmOpen,     // shm_open / open of tmp file
  kFaultMprotect,    // mprotect
  kFaultEhThrow,     // error handler throws at the n-th report
  kFaultKindCount
};
const char* fault_kind_name(uint8_t k);

struct Fault {
  uint8_t kind;
  uint32_t ordinal;   // the ordinal-th request of this kind issued while the operation runs fails (0-based)
  int32_t arg;        // kind specific (e.g. errno to report), 0 = default
};

struct Op {
  uint16_t kind = 0;
  uint16_t thread = 0;
  int64_t a[4] = {0, 0, 0, 0};
  std::string s;
  std::vector<Fault> faults;
};

struct Plan {
  std::string prop;       // "C18"
  std::string scenario;   // sub-scenario name
  uint64_t seed = 0;      // run seed (63 bits)
  std::vector<std::pair<std::string, int64_t>> cfg;
  std::vector<Op> ops;
  std::vector<uint16_t> sched;  // recorded scheduler choices (multi-threaded runs); empty = draw from the seed

  int64_t get(const char* k, int64_t def = 0) const { for (auto& kv : cfg) if (kv.first == k) return kv.second; return def; }
  void set(const char* k, int64_t v) { for (auto& kv : cfg) if (kv.first == k) { kv.second = v; return; } cfg.emplace_back(k, v); }
  Json to_json(const char* (*op_name)(uint16_t)) const;
  static bool from_json(const Json& j, Plan& out);
  size_t fault_count() const { size_t n = 0; for (auto& o : ops) n += o.faults.size(); return n; }
};

// ---------------------------------------------------------------------------------------------------------------
// Run context: event log hash, counters, violation reporting.
// ---------------------------------------------------------------------------------------------------------------

// Appends a line to the event log of the current run (hashed; printed when verbose). Never draws from a PRNG and
// never reads a clock. Must not contain raw heap addresses.
void logf(const char* fmt, ...) __attribute__((format(printf, 1, 2)));
// Counter/probe (aggregated over all runs of a check and reported in the evidence).
void count(const char* name, uint64_t n = 1);
// Marks the run as non-trivial (did at least one state-changing operation / fault fired where required).
void mark_nontrivial();
void add_steps(uint64_t n);
// Leaves a breadcrumb for the runner: "key=value key=value ..." pairs (integers) that, applied to the plan's cfg, narrow
// the plan to the sub-run that is about to execute (used by enumerating scenarios such as the C15 fault sweep). If the
// process dies or reports a violation the runner patches the plan with the last breadcrumb before reproducing.
void breadcrumb(const char* kv);
// Extra evaluations performed inside one run (sub-runs of an enumerating scenario), reported in the evidence.
void add_subruns(uint64_t n, uint64_t distinct_nontrivial);

// Reports a property violation for the current run and terminates the process (no unwinding - the objects under test
// may be corrupt). `cls` names the violation class (oracle[@site]); `fmt...` is the human readable detail.
[[noreturn]] void fail(const char* cls, const char* fmt, ...) __attribute__((format(printf, 2, 3)));

#define SIM_CHECK(cond, cls, ...) do { if (!(cond)) ::sim::fail(cls, __VA_ARGS__); } while (0)

bool verbose();
// Terminates the process immediately (raw exit_group: no atexit handlers, no sanitizer finalisation).
[[noreturn]] void hard_exit(int code);

// ---------------------------------------------------------------------------------------------------------------
// Fault plumbing shared by the seams.
// ---------------------------------------------------------------------------------------------------------------

// Begins / ends an operation: resets per-operation request counters and installs the operation's faults.
void begin_op(const Op& op, size_t index);
void end_op();
// Called by a seam for every request of `kind`. Returns true when the request must fail. `arg_out` receives the
// fault argument.
bool fault_fires(uint8_t kind, int32_t* arg_out = nullptr);
// Number of requests of `kind` seen during the current operation / since run start.
uint32_t op_request_count(uint8_t kind);
uint64_t run_request_count(uint8_t kind);
uint64_t run_fault_fired_count(uint8_t kind);
uint64_t run_faults_fired_total();
size_t current_op_index();
// Call stacks (return addresses) of the faults that fired during this run, oldest first (at most 64 are kept;
// `fired_fault_stacks_overflowed()` tells when more fired). `stack_has_function` symbolises lazily (sanitizer flavours
// only; returns false elsewhere) and tells whether any frame's function name contains `needle`.
const std::vector<std::vector<void*>>& fired_fault_stacks();
bool fired_fault_stacks_overflowed();
bool stack_has_function(const std::vector<void*>& pcs, const char* needle);
// Probabilistic fault mode (multi-fault patterns): each request of kind k fails with probability num/den, drawn from
// the run's "fault" stream. Reset by begin_run.
void set_fault_probability(uint8_t kind, uint32_t num, uint32_t den);
// "fail everything after the k-th request" mode.
void set_fail_after(uint8_t kind, int64_t k);

// Run lifecycle (called by the runner).
void begin_run(const Plan& plan);
struct RunResult { uint64_t hash; bool nontrivial; uint64_t steps; };
RunResult end_run();

// ---------------------------------------------------------------------------------------------------------------
// Knobs (H3/H4) - set per run by scenarios; 0 = keep asmjit's own value.
// ---------------------------------------------------------------------------------------------------------------
void set_knob_arena_block(size_t v);
void set_knob_code_buffer(size_t v);

// ---------------------------------------------------------------------------------------------------------------
// SimHeap
// ---------------------------------------------------------------------------------------------------------------
namespace heap {
  // Arms fault injection / layout perturbation for wrapped malloc/realloc/free. Block tracking is always on.
  void configure(int junk_mode /*0 none,1 zero,2 0xFF,3 seeded*/, int realloc_policy /*0 real,1 always move*/, int shift_blocks, uint64_t seed);
  void arm(bool on);
  // Placement policy for requests of 1 KiB .. 256 KiB (arena blocks): 0 = the process allocator decides, 1 = carved from the top
  // of a private slab downwards (later blocks lie below earlier ones). Reset at the start of every run.
  void set_placement(int policy);
  // Blocks allocated since begin_run that are still live.
  size_t live_blocks_this_run();
  std::string describe_live_blocks_this_run(size_t max = 4);
  // True if p lies inside a live block tracked by the heap (any generation). Returns its size through size_out.
  bool find_block(const void* p, size_t* size_out, const void** base_out = nullptr);
  void reset_run_generation();
  // Exempt all currently live blocks of this run from the leak check (used after an excused failure).
  uint64_t total_requests();
}

// ---------------------------------------------------------------------------------------------------------------
// SimVM - the simulated kernel memory manager behind mmap/munmap/mprotect/memfd_create/shm_open/open/ftruncate/...
// ---------------------------------------------------------------------------------------------------------------
namespace vm {
  // Process profile: answers that asmjit caches process-wide (chosen once per worker process, recorded in replays).
  struct Profile {
    int hugepage;   // 0 = sysfs file absent, 1 = "2097152", 2 = garbage
    int memfd;      // 0 = memfd_create works, 1 = ENOSYS -> shm_open works and is executable, 2 = ENOSYS -> /dev/shm is noexec -> tmp files
    int hardened;   // 0 = RWX mappings allowed, 1 = RWX mappings refused (dual mapping is forced by JitAllocator)
  };
  static constexpr int kProfileCount = 4;
  void set_profile(int index);
  int profile_index();
  Profile profile();

  enum Window { kWinLow = 0, kWinHigh = 1, kWinStraddle31 = 2, kWinStraddle32 = 3, kWinMid = 4, kWinCount };
  enum Policy { kAscending = 0, kDescending = 1, kScattered = 2, kAscendingGaps = 3, kPolicyCount };
  bool window_available(int window);   // depends on the build flavour (sanitizer shadow layouts)
  // Per-run configuration. hugetlb_grant: 1 = MAP_HUGETLB requests are granted (with ordinary pages), 0 = ENOMEM.
  void configure(int window, int policy, int hugetlb_grant, uint64_t seed);
  void arm(bool on);
  bool armed();

  struct Mapping { uintptr_t addr; size_t size; int prot; uint64_t file_id; uint64_t gen; size_t op; bool excused; bool hugetlb; uint64_t serial; };
  bool find_mapping(const void* p, Mapping* out);
  // Snapshot of live mappings made during this run.
  std::vector<Mapping> mappings_this_run();
  size_t live_mappings_this_run();   // not counting excused ones
  size_t live_fds_this_run();
  std::string describe_leaks();
  // Address the next mapping of `size` bytes will be placed at (does not consume it).
  uintptr_t peek_next_placement(size_t size);
  // Maps memory for the harness itself (stubs, data) at a simulator chosen address inside a window; never counted as
  // an asmjit mapping. Returns nullptr on failure.
  void* harness_map(int window, size_t size, int prot);
  void harness_unmap(void* p, size_t size);
  // Observer of successful map / unmap events of asmjit (called inside the seam, in program order).
  typedef void (*Observer)(void* ctx, bool mapped, const Mapping& m);
  void set_observer(Observer fn, void* ctx);
  void reset_run_generation();
  void end_run_cleanup();   // unmaps excused / leaked mappings for real so address space does not fill up
}

// ---------------------------------------------------------------------------------------------------------------
// SimSched - seeded scheduler over real threads (exactly one simulated thread runs at any instant).
// ---------------------------------------------------------------------------------------------------------------
namespace sched {
  typedef void (*Body)(int tid, void* arg);
  typedef void (*H2Observer)(void* ctx, const void* obj, const char* site, int held_locks);
  // Runs `n` simulated threads to completion. strategy: 0 = random walk, 1 = PCT-like priorities with change points.
  void run(int n, Body body, void* arg, uint64_t seed, int strategy);
  bool active();
  int current_tid();              // -1 outside simulated threads
  void yield();                   // explicit scheduling point (operation boundaries)
  uint64_t steps();
  uint64_t switches();
  uint64_t locks_observed();      // wrapped pthread_mutex_lock calls by simulated threads
  uint64_t lock_order_hash();     // hash of the order in which threads entered critical sections
  uint64_t current_cs();          // sequence number of the calling thread's latest critical section
  int held_locks();
  // Sequence numbers of the critical sections the calling thread entered since the last call.
  std::vector<uint64_t> take_cs_seqs();
  void set_h2_observer(H2Observer fn, void* ctx);
}

// ---------------------------------------------------------------------------------------------------------------
// Flavour helpers (TSan ignore scopes). No-ops outside the tsan flavour.
// ---------------------------------------------------------------------------------------------------------------
void tsan_ignore_begin();
void tsan_ignore_end();
// Harness code runs with TSan ignoring its accesses; asmjit calls are made inside an AsmjitScope, which switches
// the ignore off for the duration of the call.
struct AsmjitScope {
  AsmjitScope();
  ~AsmjitScope();
};
struct HarnessScope {  // used inside seam callbacks invoked from asmjit code
  HarnessScope();
  ~HarnessScope();
};

// ---------------------------------------------------------------------------------------------------------------
// Scenario registry + runner.
// ---------------------------------------------------------------------------------------------------------------

struct Scenario {
  const char* prop;         // property id
  const char* name;         // scenario name
  const char* flavour;      // flavour this scenario must run in ("asan", "tsan", "plain", "dbg") - "" = any
  int weight_quick;         // share of runs in quick tier (0 = not run)
  int weight_thorough;      // share of runs in thorough tier
  Plan (*generate)(uint64_t run_seed, bool thorough);
  void (*execute)(const Plan& plan);
  const char* (*op_name)(uint16_t kind);
  // Optional: additional shrink candidates for a failing plan (besides generic op/fault removal).
  void (*shrink)(const Plan& plan, std::vector<Plan>& out);
  // Optional: describes the plan in one line for evidence samples.
  std::string (*summary)(const Plan& plan);
  // Optional: enumerating scenarios derive the plan from the run's index instead of from a PRNG (bounded-exhaustive
  // enumeration of short histories); when set it replaces `generate`.
  Plan (*generate_indexed)(uint64_t local_index, bool thorough);
};

void register_scenario(const Scenario& s);
const std::vector<Scenario>& scenarios();
const Scenario* find_scenario(const std::string& prop, const std::string& name);

struct Registrar { explicit Registrar(const Scenario& s) { register_scenario(s); } };

// Static description of a property's check (goes into the evidence file).
struct PropInfo {
  const char* prop;
  const char* level;                       // "exploration" | "fault_enumeration"
  const char* rule;                        // how cases are generated and what makes one distinct / non-trivial
  const char* const* assumptions;          // null terminated
  const char* const* real_components;      // null terminated
  const char* const* stub_components;      // null terminated
};
void register_prop_info(const PropInfo& p);
struct PropInfoRegistrar { explicit PropInfoRegistrar(const PropInfo& p) { register_prop_info(p); } };

// Process-wide warm-up hooks (caches of asmjit that outlive a run); run once per process before the first run.
void register_warmup(void (*fn)());
void run_warmups();

int runner_main(int argc, char** argv);

} // namespace sim

#endif
