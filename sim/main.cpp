#include "sim/sim.h"

// Sanitizer defaults: classify reports through the exit code, no leak sanitizer (SimHeap/SimVM do per-run leak
// accounting), no recovery.
extern "C" __attribute__((used, visibility("default"))) const char* __asan_default_options() {
  return "exitcode=77:detect_leaks=0:abort_on_error=0:allocator_may_return_null=1:detect_stack_use_after_return=0:handle_segv=1:handle_abort=1:print_summary=1";
}
extern "C" __attribute__((used, visibility("default"))) const char* __ubsan_default_options() {
  return "print_stacktrace=1:halt_on_error=1:exitcode=77";
}
extern "C" __attribute__((used, visibility("default"))) const char* __tsan_default_options() {
  return "exitcode=77:halt_on_error=1:report_signal_unsafe=0:second_deadlock_stack=1:history_size=4";
}

int main(int argc, char** argv) { return sim::runner_main(argc, argv); }
