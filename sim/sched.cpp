// SimSched: seeded scheduler over real threads (exactly one runnable at any instant).
#include "sim/sim.h"
#include "sim/internal.h"
#include <pthread.h>

extern "C" {
int __real_pthread_mutex_lock(pthread_mutex_t*);
int __real_pthread_mutex_unlock(pthread_mutex_t*);
}

namespace sim {
void sched_point(int kind) { (void)kind; }
}

extern "C" int __wrap_pthread_mutex_lock(pthread_mutex_t* m) { return __real_pthread_mutex_lock(m); }
extern "C" int __wrap_pthread_mutex_unlock(pthread_mutex_t* m) { return __real_pthread_mutex_unlock(m); }

extern "C" void asmjit_verif_shared(const void* obj, const char* site) { (void)obj; (void)site; }
