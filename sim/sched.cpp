// SimSched: seeded scheduler over real threads. Simulated threads are real pthreads; exactly one is runnable at any
// instant, every other one is parked on its own futex word. Scheduling points are the wrapped pthread_mutex_lock /
// unlock, every SimHeap / SimVM call, the H1 / H2 hooks and operation boundaries.
//
// The park / wake primitive is a raw futex syscall on a word that is accessed with RELAXED atomics only, from
// functions that ThreadSanitizer does not instrument: TSan therefore sees no happens-before edge created by the
// scheduler, only those created by asmjit's own synchronisation.
#include "sim/sim.h"
#include "sim/internal.h"

#include <linux/futex.h>
#include <pthread.h>
#include <stdio.h>
#include <string.h>
#include <sys/syscall.h>
#include <unistd.h>
#include <map>
#include <vector>

extern "C" {
int __real_pthread_mutex_lock(pthread_mutex_t*);
int __real_pthread_mutex_unlock(pthread_mutex_t*);
}

#define NOSAN __attribute__((no_sanitize("thread"))) __attribute__((noinline))

namespace sim {
namespace sched {

namespace {

NOSAN long raw_futex(volatile int* addr, int op, int val) {
  long ret;
  register long r10 __asm__("r10") = 0;
  register long r8 __asm__("r8") = 0;
  register long r9 __asm__("r9") = 0;
  __asm__ volatile("syscall" : "=a"(ret) : "0"(long(SYS_futex)), "D"(addr), "S"(long(op)), "d"(long(val)), "r"(r10), "r"(r8), "r"(r9) : "rcx", "r11", "memory");
  return ret;
}

struct Thread {
  volatile int go = 0;          // 1 = this thread may run
  int state = 0;                // 0 runnable, 1 blocked on a mutex, 2 finished
  pthread_mutex_t* waiting_for = nullptr;
  int held = 0;                 // number of mutexes this thread holds
  std::vector<uint64_t> cs_seqs;   // critical sections entered since the harness last collected them
  uint64_t current_cs = 0;
  int priority = 0;
  pthread_t handle;
};

struct State {
  bool active = false;
  int n = 0;
  std::vector<Thread> threads;
  int running = -1;
  Rng rng;
  int strategy = 0;            // 0 random walk, 1 PCT-like priorities
  uint32_t switch_den = 4;     // random walk: switch with probability 1/switch_den
  std::vector<uint64_t> change_points;
  uint64_t steps = 0;
  uint64_t step_cap = 400000;
  uint64_t switches = 0;
  uint64_t cs_counter = 0;
  uint64_t locks_observed = 0;
  uint64_t lock_order_hash = 0xcbf29ce484222325ull;
  std::map<pthread_mutex_t*, int> owner;
  volatile int driver_go = 0;
  Body body = nullptr;
  void* body_arg = nullptr;
  H2Observer h2 = nullptr;
  void* h2_ctx = nullptr;
};

State g_s;
thread_local int t_tid = -1;

NOSAN void park(volatile int* word) {
  for (;;) {
    int v = __atomic_load_n(word, __ATOMIC_RELAXED);
    if (v == 1) break;
    raw_futex(word, FUTEX_WAIT, 0);
  }
  __atomic_store_n(word, 0, __ATOMIC_RELAXED);
}

NOSAN void unpark(volatile int* word) {
  __atomic_store_n(word, 1, __ATOMIC_RELAXED);
  raw_futex(word, FUTEX_WAKE, 1);
}

// Picks the thread that runs next among the runnable ones (the caller may or may not be runnable).
int choose(int me) {
  State& s = g_s;
  std::vector<int> runnable;
  for (int i = 0; i < s.n; i++) if (s.threads[size_t(i)].state == 0) runnable.push_back(i);
  if (runnable.empty()) return -1;
  if (s.strategy == 1) {
    // PCT-like: highest priority runnable thread runs; at a change point the running thread's priority drops.
    for (uint64_t cp : s.change_points) if (cp == s.steps && me >= 0) s.threads[size_t(me)].priority = -int(s.steps) - 1;
    int best = runnable[0];
    for (int t : runnable) if (s.threads[size_t(t)].priority > s.threads[size_t(best)].priority) best = t;
    return best;
  }
  bool me_runnable = me >= 0 && s.threads[size_t(me)].state == 0;
  if (me_runnable && runnable.size() > 1 && s.rng.below(s.switch_den) != 0) return me;
  if (me_runnable && runnable.size() == 1) return me;
  return runnable[s.rng.below(runnable.size())];
}

void switch_from(int me, const char* why) {
  State& s = g_s;
  s.steps++;
  if (s.steps > s.step_cap) fail("sched:no-progress", "more than %llu scheduling points in one run (%s)", (unsigned long long)s.step_cap, why);
  int next = choose(me);
  if (next < 0) {
    std::string d;
    for (int i = 0; i < s.n; i++) { char b[64]; snprintf(b, sizeof b, " t%d:%s", i, s.threads[size_t(i)].state == 1 ? "blocked" : s.threads[size_t(i)].state == 2 ? "done" : "runnable"); d += b; }
    fail("sched:deadlock", "every simulated thread is blocked:%s", d.c_str());
  }
  if (next == me) return;
  s.switches++;
  s.running = next;
  unpark(&s.threads[size_t(next)].go);
  if (me >= 0 && s.threads[size_t(me)].state != 2) park(&s.threads[size_t(me)].go);
}

void* thread_main(void* arg) {
  int tid = int(intptr_t(arg));
  t_tid = tid;
  tsan_ignore_begin();
  park(&g_s.threads[size_t(tid)].go);
  g_s.body(tid, g_s.body_arg);
  // finished: hand over to somebody else (or to the driver)
  State& s = g_s;
  s.threads[size_t(tid)].state = 2;
  bool any = false;
  for (int i = 0; i < s.n; i++) if (s.threads[size_t(i)].state != 2) any = true;
  if (any) switch_from(tid, "thread exit");
  else unpark(&s.driver_go);
  tsan_ignore_end();
  return nullptr;
}

} // namespace

bool active() { return g_s.active; }
int current_tid() { return g_s.active ? t_tid : -1; }
uint64_t steps() { return g_s.steps; }
uint64_t switches() { return g_s.switches; }
uint64_t locks_observed() { return g_s.locks_observed; }
uint64_t lock_order_hash() { return g_s.lock_order_hash; }
uint64_t current_cs() { int t = current_tid(); return t >= 0 ? g_s.threads[size_t(t)].current_cs : 0; }
int held_locks() { int t = current_tid(); return t >= 0 ? g_s.threads[size_t(t)].held : 0; }
void set_h2_observer(H2Observer fn, void* ctx) { g_s.h2 = fn; g_s.h2_ctx = ctx; }

std::vector<uint64_t> take_cs_seqs() {
  int t = current_tid();
  std::vector<uint64_t> out;
  if (t >= 0) out.swap(g_s.threads[size_t(t)].cs_seqs);
  return out;
}

void yield() { if (g_s.active && t_tid >= 0) switch_from(t_tid, "yield"); }

void run(int n, Body body, void* arg, uint64_t seed, int strategy) {
  State& s = g_s;
  s.threads.clear();
  s.threads.resize(size_t(n));
  s.n = n;
  s.rng = Rng(mix64(seed ^ 0x5c4ed));
  s.strategy = strategy & 1;
  static const uint32_t dens[] = {2, 3, 4, 8, 16, 64};
  s.switch_den = dens[s.rng.below(6)];
  s.change_points.clear();
  uint32_t d = uint32_t(1 + s.rng.below(4));
  for (uint32_t i = 0; i < d; i++) s.change_points.push_back(1 + s.rng.below(2000));
  for (int i = 0; i < n; i++) s.threads[size_t(i)].priority = int(s.rng.below(1000)) + 1;
  s.steps = 0; s.switches = 0; s.cs_counter = 0; s.locks_observed = 0; s.lock_order_hash = 0xcbf29ce484222325ull;
  s.owner.clear();
  s.driver_go = 0;
  s.body = body; s.body_arg = arg;
  s.running = -1;
  s.active = true;
  for (int i = 0; i < n; i++) {
    static long long test_fail_after = getenv("SIM_TEST_PTHREAD_FAIL_AFTER") ? atoll(getenv("SIM_TEST_PTHREAD_FAIL_AFTER")) : -1;   // self-test of the replacement path
    static long long created = 0;
    bool forced = test_fail_after >= 0 && ++created > test_fail_after;
    if (forced || pthread_create(&s.threads[size_t(i)].handle, nullptr, thread_main, reinterpret_cast<void*>(intptr_t(i))) != 0) {
      // A long-lived (ThreadSanitizer) worker can run out of thread resources after tens of thousands of runs. That says
      // nothing about asmjit: the worker asks to be replaced and the run is executed again by its successor.
      fprintf(stderr, "[worker] pthread_create failed - asking for a fresh worker\n");
      hard_exit(4);
    }
  }
  // start the first thread and wait until the last one finishes
  int first = choose(-1);
  s.running = first;
  unpark(&s.threads[size_t(first)].go);
  park(&s.driver_go);
  for (int i = 0; i < n; i++) pthread_join(s.threads[size_t(i)].handle, nullptr);
  s.active = false;
  s.h2 = nullptr;
  count("sched.steps", s.steps);
  count("sched.switches", s.switches);
}

} // namespace sched

void sched_point(int kind) {
  (void)kind;
  if (!sched::g_s.active || sched::t_tid < 0) return;
  sched::switch_from(sched::t_tid, "scheduling point");
}

} // namespace sim

using namespace sim;

extern "C" int __wrap_pthread_mutex_lock(pthread_mutex_t* m) {
  sched::State& s = sched::g_s;
  if (!s.active || sched::t_tid < 0) return __real_pthread_mutex_lock(m);
  int me = sched::t_tid;
  {
    HarnessScope hs;
    sched::switch_from(me, "before lock");
    for (;;) {
      auto it = s.owner.find(m);
      if (it == s.owner.end()) break;
      if (it->second == me) fail("sched:relock", "simulated thread %d locks a mutex it already holds", me);
      // held by another simulated thread: block until its unlock makes us runnable again
      s.threads[size_t(me)].state = 1;
      s.threads[size_t(me)].waiting_for = m;
      count("sched.lock_contended");
      sched::switch_from(me, "blocked on mutex");
    }
    s.owner[m] = me;
    sched::Thread& t = s.threads[size_t(me)];
    t.held++;
    t.current_cs = ++s.cs_counter;
    t.cs_seqs.push_back(t.current_cs);
    s.locks_observed++;
    s.lock_order_hash = (s.lock_order_hash ^ uint64_t(me + 1)) * 0x100000001b3ull;
  }
  // The real mutex is free by construction; locking it gives ThreadSanitizer asmjit's own happens-before edge.
  return __real_pthread_mutex_lock(m);
}

extern "C" int __wrap_pthread_mutex_unlock(pthread_mutex_t* m) {
  sched::State& s = sched::g_s;
  if (!s.active || sched::t_tid < 0) return __real_pthread_mutex_unlock(m);
  int me = sched::t_tid;
  int rc = __real_pthread_mutex_unlock(m);
  {
    HarnessScope hs;
    auto it = s.owner.find(m);
    if (it == s.owner.end() || it->second != me) fail("sched:bad-unlock", "simulated thread %d unlocks a mutex it does not hold", me);
    s.owner.erase(it);
    s.threads[size_t(me)].held--;
    for (int i = 0; i < s.n; i++) if (s.threads[size_t(i)].state == 1 && s.threads[size_t(i)].waiting_for == m) { s.threads[size_t(i)].state = 0; s.threads[size_t(i)].waiting_for = nullptr; }
    sched::switch_from(me, "after unlock");
  }
  return rc;
}

// H2: shared bookkeeping is being accessed. A scheduling point, and a probe of whether the caller holds a lock.
extern "C" void asmjit_verif_shared(const void* obj, const char* site) {
  sched::State& s = sched::g_s;
  if (!s.active || sched::t_tid < 0) return;
  HarnessScope hs;
  count("sched.h2_probes");
  if (s.h2) s.h2(s.h2_ctx, obj, site, s.threads[size_t(sched::t_tid)].held);
  sched::switch_from(sched::t_tid, "shared access");
}
