// TSan ignore scopes: harness and seam code is invisible to ThreadSanitizer, asmjit code is not.
#include "sim/sim.h"

#if defined(SIM_FLAVOUR_TSAN)
extern "C" {
void AnnotateIgnoreReadsBegin(const char* f, int l);
void AnnotateIgnoreReadsEnd(const char* f, int l);
void AnnotateIgnoreWritesBegin(const char* f, int l);
void AnnotateIgnoreWritesEnd(const char* f, int l);
}
namespace sim {
void tsan_ignore_begin() { AnnotateIgnoreReadsBegin(__FILE__, __LINE__); AnnotateIgnoreWritesBegin(__FILE__, __LINE__); }
void tsan_ignore_end() { AnnotateIgnoreWritesEnd(__FILE__, __LINE__); AnnotateIgnoreReadsEnd(__FILE__, __LINE__); }
}
#else
namespace sim {
void tsan_ignore_begin() {}
void tsan_ignore_end() {}
}
#endif

namespace sim {
AsmjitScope::AsmjitScope() { tsan_ignore_end(); }
AsmjitScope::~AsmjitScope() { tsan_ignore_begin(); }
HarnessScope::HarnessScope() { tsan_ignore_begin(); }
HarnessScope::~HarnessScope() { tsan_ignore_end(); }
}
