// simkit runner: workers, violation handling, minimisation, replay, evidence parts.
#include "sim/sim.h"
#include "sim/internal.h"

#include <errno.h>
#include <fcntl.h>
#include <poll.h>
#include <signal.h>
#include <stdio.h>
#include <stdlib.h>
#include <string.h>
#include <sys/personality.h>
#include <sys/stat.h>
#include <sys/wait.h>
#include <time.h>
#include <unistd.h>
#include <algorithm>
#include <map>
#include <set>
#include <unordered_set>

namespace sim {

// ---------------------------------------------------------------------------------------------------------------
// Registry
// ---------------------------------------------------------------------------------------------------------------

static std::vector<Scenario>& scen_vec() { static std::vector<Scenario>* v = new std::vector<Scenario>(); return *v; }
static std::vector<void (*)()>& warm_vec() { static std::vector<void (*)()>* v = new std::vector<void (*)()>(); return *v; }
static std::vector<PropInfo>& info_vec() { static std::vector<PropInfo>* v = new std::vector<PropInfo>(); return *v; }

void register_scenario(const Scenario& s) { scen_vec().push_back(s); }
const std::vector<Scenario>& scenarios() { return scen_vec(); }
const Scenario* find_scenario(const std::string& prop, const std::string& name) {
  for (auto& s : scen_vec()) if (prop == s.prop && name == s.name) return &s;
  return nullptr;
}
void register_warmup(void (*fn)()) { warm_vec().push_back(fn); }
void register_prop_info(const PropInfo& p) { info_vec().push_back(p); }

static bool g_warmed = false;
void run_warmups() {
  if (g_warmed) return;
  g_warmed = true;
  vm::arm(true);
  for (auto fn : warm_vec()) fn();
  vm::arm(false);
}

static double now_s() { struct timespec ts; clock_gettime(CLOCK_MONOTONIC, &ts); return double(ts.tv_sec) + double(ts.tv_nsec) * 1e-9; }

static std::string verif_dir() {
  const char* e = getenv("VERIF_DIR");
  return e ? e : "/verif";
}

static void mkdirs(const std::string& p) {
  std::string cur;
  for (size_t i = 0; i < p.size(); i++) { cur += p[i]; if (p[i] == '/' || i + 1 == p.size()) mkdir(cur.c_str(), 0777); }
}

// ---------------------------------------------------------------------------------------------------------------
// Executing one plan in this process
// ---------------------------------------------------------------------------------------------------------------

static uint64_t run_seed_for(uint64_t verif_seed, const Scenario& s, uint64_t local_index) {
  uint64_t h = mix64(verif_seed ^ hash_str(s.prop));
  h = mix64(h ^ hash_str(s.name));
  h = mix64(h ^ local_index);
  return h & 0x7fffffffffffffffull;
}

// Runs the plan; returns normally only if no violation was found.
static RunResult execute_plan(const Scenario& s, const Plan& plan) {
  begin_run(plan);
  vm::reset_run_generation();
  s.execute(plan);
  RunResult r = end_run();
  vm::arm(false);
  vm::end_run_cleanup();
  return r;
}

static Plan make_plan(const Scenario& s, uint64_t verif_seed, uint64_t local_index, bool thorough, int profile) {
  uint64_t rs = run_seed_for(verif_seed, s, local_index);
  Plan p = s.generate_indexed ? s.generate_indexed(local_index, thorough) : s.generate(rs, thorough);
  p.prop = s.prop;
  p.scenario = s.name;
  p.seed = rs;
  p.set("profile", profile);
  return p;
}

// ---------------------------------------------------------------------------------------------------------------
// Child execution (fork) used by minimisation / determinism gate
// ---------------------------------------------------------------------------------------------------------------

struct Outcome {
  bool ok = false;          // plan ran to completion without violation
  bool violation = false;   // violation (oracle or crash)
  bool harness = false;     // harness problem (timeout is reported as class "hang")
  std::string cls;
  std::string detail;
  uint64_t hash = 0;
  bool nontrivial = false;
  uint64_t steps = 0;
};

static std::string classify_sanitizer_text(const std::string& text, std::string* detail_out) {
  // Returns a class such as "asan:heap-use-after-free@asmjit::CodeHolder::detach", or "" if nothing recognised.
  std::string kind, site;
  size_t pos;
  bool ubsan = false;
  if ((pos = text.find("ERROR: AddressSanitizer: ")) != std::string::npos) {
    size_t b = pos + strlen("ERROR: AddressSanitizer: ");
    size_t e = text.find_first_of(" \n", b);
    kind = "asan:" + text.substr(b, e - b);
    // Which flavour of invalid access a wild pointer produces depends on what happens to live at that address; fold the
    // flavours into one class so that a replay in another process is recognised as the same violation.
    static const char* const mem_kinds[] = {"asan:SEGV", "asan:heap-use-after-free", "asan:heap-buffer-overflow", "asan:global-buffer-overflow", "asan:stack-buffer-overflow", "asan:stack-buffer-underflow",
                                            "asan:use-after-poison", "asan:unknown-crash", "asan:stack-use-after-scope", "asan:container-overflow", "asan:dynamic-stack-buffer-overflow", "asan:wild-jump"};
    for (const char* mk : mem_kinds) if (kind == mk) { kind = "asan:invalid-memory-access"; break; }
  }
  else if ((pos = text.find("WARNING: ThreadSanitizer: ")) != std::string::npos) {
    size_t b = pos + strlen("WARNING: ThreadSanitizer: ");
    size_t e = text.find_first_of("(\n", b);
    std::string k = text.substr(b, e - b);
    while (!k.empty() && k.back() == ' ') k.pop_back();
    for (auto& c : k) if (c == ' ') c = '-';
    kind = "tsan:" + k;
  }
  else if ((pos = text.find("runtime error: ")) != std::string::npos) {
    ubsan = true;
    size_t ls = text.rfind('\n', pos);
    ls = ls == std::string::npos ? 0 : ls + 1;
    std::string loc = text.substr(ls, pos - ls);   // "/repo/asmjit/x.cpp:12:3: "
    size_t slash = loc.rfind('/');
    if (slash != std::string::npos) loc = loc.substr(slash + 1);
    size_t c1 = loc.find(':');
    size_t c2 = c1 == std::string::npos ? c1 : loc.find(':', c1 + 1);
    if (c2 != std::string::npos) loc = loc.substr(0, c2);
    std::string msg = text.substr(pos + strlen("runtime error: "), 40);
    size_t nl = msg.find('\n'); if (nl != std::string::npos) msg = msg.substr(0, nl);
    std::string k;
    for (char c : msg) { if (c == ' ') k += '-'; else if (isalnum((unsigned char)c)) k += c; if (k.size() > 28) break; }
    kind = "ubsan:" + k;
    site = loc;
  }
  else if ((pos = text.find("Assertion failed")) != std::string::npos || (pos = text.find("[asmjit] FAILED")) != std::string::npos) {
    kind = "assert";
  }
  else return "";
  if (!ubsan) {
    // first frame that names an asmjit function
    size_t p = pos;
    while ((p = text.find(" in ", p)) != std::string::npos) {
      size_t b = p + 4;
      size_t e = text.find_first_of("\n", b);
      std::string fr = text.substr(b, e - b);
      if (fr.find("asmjit") != std::string::npos && fr.find("__wrap") == std::string::npos && fr.find("sim::") == std::string::npos) {
        size_t par = fr.find('(');
        size_t sp = fr.find(' ');
        size_t cut = std::min(par, sp);
        site = fr.substr(0, cut);
        break;
      }
      p = b;
    }
  }
  if (detail_out) { size_t e = std::min(text.size(), pos + 3000); *detail_out = text.substr(pos, e - pos); }
  return site.empty() ? kind : kind + "@" + site;
}

static std::string tail_of_file(const std::string& path, size_t max) {
  std::string t;
  if (!read_file(path, t)) return "";
  if (t.size() > max) {
    // keep the beginning of the first sanitizer report if present
    size_t pos = t.find("ERROR: AddressSanitizer");
    if (pos == std::string::npos) pos = t.find("runtime error: ");
    if (pos == std::string::npos) pos = t.find("WARNING: ThreadSanitizer");
    if (pos == std::string::npos) pos = t.size() - max;
    else { size_t ls = t.rfind('\n', pos); pos = ls == std::string::npos ? 0 : ls + 1; }
    t = t.substr(pos, max);
  }
  return t;
}

static void parse_result_lines(const std::string& data, Outcome& o, std::map<std::string, uint64_t>* counters) {
  size_t p = 0;
  while (p < data.size()) {
    size_t e = data.find('\n', p);
    if (e == std::string::npos) e = data.size();
    std::string line = data.substr(p, e - p);
    p = e + 1;
    if (line.size() < 2) continue;
    if (line[0] == 'E') {
      unsigned long long idx, hash, steps; int nt;
      if (sscanf(line.c_str(), "E %llu %llx %d %llu", &idx, &hash, &nt, &steps) == 4) { o.ok = true; o.hash = hash; o.nontrivial = nt != 0; o.steps = steps; }
    }
    else if (line[0] == 'V') {
      unsigned long long idx, hash; int n = 0;
      if (sscanf(line.c_str(), "V %llu %llx %n", &idx, &hash, &n) >= 2) {
        std::string rest = line.substr(size_t(n));
        size_t tab = rest.find('\t');
        o.violation = true; o.ok = false; o.hash = hash;
        o.cls = rest.substr(0, tab);
        if (tab != std::string::npos) o.detail = rest.substr(tab + 1);
      }
    }
    else if (line[0] == 'C' && counters) {
      char name[200]; unsigned long long v;
      if (sscanf(line.c_str(), "C %199s %llu", name, &v) == 2) (*counters)[name] += v;
    }
  }
}

static std::string unescape_detail(const std::string& s) {
  std::string o;
  for (size_t i = 0; i < s.size(); i++) { if (s[i] == '\\' && i + 1 < s.size() && s[i + 1] == 'n') { o += '\n'; i++; } else o += s[i]; }
  return o;
}

static int g_child_timeout_s = 60;

// Forks; the child warms up under the plan's profile and executes the plan.
static Outcome run_in_child(const Scenario& s, const Plan& plan, bool verbose_child = false) {
  Outcome o;
  int pfd[2];
  if (pipe(pfd) != 0) { o.harness = true; o.cls = "harness:pipe"; return o; }
  std::string errpath = verif_dir() + "/out/tmp/child-" + std::to_string(getpid()) + ".err";
  mkdirs(verif_dir() + "/out/tmp/");
  fflush(stdout); fflush(stderr);
  pid_t pid = fork();
  if (pid == 0) {
    close(pfd[0]);
    int efd = open(errpath.c_str(), O_WRONLY | O_CREAT | O_TRUNC, 0666);
    if (efd >= 0 && !verbose_child) { dup2(efd, 2); close(efd); }
    g.result_fd = pfd[1];
    g.run_index = 0;
    g.verbose = verbose_child;
    vm::set_profile(int(plan.get("profile", 0)));
    run_warmups();
    RunResult r = execute_plan(s, plan);
    char b[128];
    snprintf(b, sizeof b, "E 0 %016llx %d %llu\n", (unsigned long long)r.hash, r.nontrivial ? 1 : 0, (unsigned long long)r.steps);
    emit_result_line(b);
    hard_exit(0);
  }
  close(pfd[1]);
  std::string data;
  double t0 = now_s();
  bool timed_out = false;
  for (;;) {
    struct pollfd p{pfd[0], POLLIN, 0};
    int rc = poll(&p, 1, 200);
    if (rc > 0) {
      char buf[4096];
      ssize_t n = read(pfd[0], buf, sizeof buf);
      if (n > 0) data.append(buf, size_t(n));
      else if (n == 0) break;
    }
    if (now_s() - t0 > g_child_timeout_s) { timed_out = true; kill(pid, SIGKILL); break; }
  }
  close(pfd[0]);
  int status = 0;
  waitpid(pid, &status, 0);
  parse_result_lines(data, o, nullptr);
  if (timed_out) { o.ok = false; o.violation = true; o.cls = "hang"; o.detail = "run did not finish within the time limit"; return o; }
  if (o.violation) { o.detail = unescape_detail(o.detail); return o; }
  if (o.ok && WIFEXITED(status) && WEXITSTATUS(status) == 0) return o;
  // Crash: classify from stderr
  o.ok = false; o.violation = true;
  std::string text = tail_of_file(errpath, 200000);
  std::string detail;
  std::string cls = classify_sanitizer_text(text, &detail);
  if (cls.empty()) {
    char b[64];
    if (WIFSIGNALED(status)) snprintf(b, sizeof b, "signal:%d", WTERMSIG(status)); else snprintf(b, sizeof b, "exit:%d", WIFEXITED(status) ? WEXITSTATUS(status) : -1);
    cls = b;
    detail = text.size() > 2000 ? text.substr(text.size() - 2000) : text;
  }
  o.cls = cls; o.detail = detail;
  return o;
}

// ---------------------------------------------------------------------------------------------------------------
// Known findings
// ---------------------------------------------------------------------------------------------------------------

struct KnownFinding { std::string prop, cls, text; bool fixed; };

static std::vector<KnownFinding> load_known_findings() {
  std::vector<KnownFinding> out;
  std::string data;
  if (!read_file(verif_dir() + "/known_findings.txt", data)) return out;
  size_t p = 0;
  while (p < data.size()) {
    size_t e = data.find('\n', p); if (e == std::string::npos) e = data.size();
    std::string line = data.substr(p, e - p); p = e + 1;
    if (line.empty() || line[0] == '#') continue;
    KnownFinding k; k.fixed = line.compare(0, 6, "fixed:") == 0;
    if (!k.fixed && line.compare(0, 8, "finding:") != 0) continue;
    size_t pp = line.find("property=");
    if (pp == std::string::npos) continue;
    size_t pe = line.find(' ', pp);
    k.prop = line.substr(pp + 9, pe - pp - 9);
    size_t cp = line.find("class=");
    if (cp != std::string::npos) { size_t ce = line.find(' ', cp); k.cls = line.substr(cp + 6, ce == std::string::npos ? ce : ce - cp - 6); }
    k.text = line;
    out.push_back(k);
  }
  return out;
}

// ---------------------------------------------------------------------------------------------------------------
// Minimisation
// ---------------------------------------------------------------------------------------------------------------

struct Minimiser {
  const Scenario& s;
  std::string cls;
  int budget;
  int runs = 0;
  double deadline;

  bool still_fails(const Plan& p, Outcome* out = nullptr) {
    if (runs >= budget || now_s() > deadline) return false;
    runs++;
    Outcome o = run_in_child(s, p);
    if (out) *out = o;
    return o.violation && o.cls == cls;
  }

  Plan minimise(Plan p) {
    // 1. ddmin over operations
    size_t n = 2;
    while (p.ops.size() >= 2 && runs < budget && now_s() < deadline) {
      size_t chunk = (p.ops.size() + n - 1) / n;
      bool reduced = false;
      for (size_t start = 0; start < p.ops.size(); start += chunk) {
        Plan q = p;
        size_t end = std::min(p.ops.size(), start + chunk);
        q.ops.erase(q.ops.begin() + long(start), q.ops.begin() + long(end));
        if (q.ops.empty()) continue;
        if (still_fails(q)) { p = q; n = std::max<size_t>(n - 1, 2); reduced = true; break; }
      }
      if (!reduced) { if (chunk <= 1) break; n = std::min(n * 2, p.ops.size()); }
    }
    // 2. drop faults one by one
    for (size_t i = 0; i < p.ops.size(); i++) {
      for (size_t f = 0; f < p.ops[i].faults.size();) {
        Plan q = p; q.ops[i].faults.erase(q.ops[i].faults.begin() + long(f));
        if (still_fails(q)) p = q; else f++;
      }
    }
    // 3. drop the recorded schedule tail / simplify to "stay on thread" is scenario specific -> shrink hook
    // 4. scenario specific candidates until fixpoint
    if (s.shrink) {
      bool progress = true;
      while (progress && runs < budget && now_s() < deadline) {
        progress = false;
        std::vector<Plan> cands;
        s.shrink(p, cands);
        for (auto& q : cands) { if (still_fails(q)) { p = q; progress = true; break; } }
      }
    }
    // 5. generic argument shrinking: halve a[] values
    for (size_t i = 0; i < p.ops.size() && runs < budget; i++) {
      for (int k = 0; k < 4; k++) {
        while (p.ops[i].a[k] > 1 && runs < budget) {
          Plan q = p; q.ops[i].a[k] = p.ops[i].a[k] / 2;
          if (still_fails(q)) p = q; else break;
        }
      }
    }
    return p;
  }
};

// ---------------------------------------------------------------------------------------------------------------
// Workers
// ---------------------------------------------------------------------------------------------------------------

struct RunSlot { int scen; uint64_t local; };

static std::vector<RunSlot> build_order(const std::vector<const Scenario*>& ss, bool thorough, double scale) {
  std::vector<uint64_t> want, done(ss.size(), 0);
  uint64_t total = 0;
  for (auto* s : ss) { uint64_t n = uint64_t(double(thorough ? s->weight_thorough : s->weight_quick) * scale); if ((thorough ? s->weight_thorough : s->weight_quick) > 0 && n == 0) n = 1; want.push_back(n); total += n; }
  std::vector<RunSlot> order;
  order.reserve(total);
  for (uint64_t r = 0; r < total; r++) {
    int best = -1; double bestv = 2.0;
    for (size_t i = 0; i < ss.size(); i++) {
      if (done[i] >= want[i]) continue;
      double v = double(done[i] + 1) / double(want[i]);
      if (v < bestv) { bestv = v; best = int(i); }
    }
    order.push_back(RunSlot{best, done[size_t(best)]++});
  }
  return order;
}

struct Worker {
  pid_t pid = -1;
  int fd = -1;
  int id = 0;
  std::string buf;
  long long current = -1;       // index being executed
  double current_since = 0;
  size_t next_pos = 0;          // next position in this worker's stripe
  int restart_requests = 0;     // times this worker slot asked to be replaced (exit status 4)
  bool done = false;
  std::string errpath;
  std::string breadcrumb;
  bool violation_reported = false;
};

struct CheckState {
  std::string prop;
  bool thorough = false;
  uint64_t verif_seed = 1;
  int K = 16;
  std::vector<const Scenario*> ss;
  std::vector<RunSlot> order;
  std::vector<std::vector<size_t>> stripes;   // per worker: indices into order
};

static void worker_main(const CheckState& cs, int w, size_t start_pos, int out_fd) {
  g.result_fd = out_fd;
  int profile = w % vm::kProfileCount;
  vm::set_profile(profile);
  run_warmups();
  const std::vector<size_t>& stripe = cs.stripes[size_t(w)];
  char b[256];
  size_t max_runs = getenv("SIM_WORKER_MAX_RUNS") ? size_t(strtoull(getenv("SIM_WORKER_MAX_RUNS"), nullptr, 10)) : (!cs.ss.empty() && std::string(cs.ss[0]->flavour) == "tsan" ? 1500 : 0);
  for (size_t pos = start_pos; pos < stripe.size(); pos++) {
    size_t i = stripe[pos];
    const Scenario& s = *cs.ss[size_t(cs.order[i].scen)];
    uint64_t local = cs.order[i].local;
    Plan plan = make_plan(s, cs.verif_seed, local, cs.thorough, profile);
    g.run_index = i;
    snprintf(b, sizeof b, "S %zu %zu\n", i, pos);
    emit_result_line(b);
    if (local < 2) {
      Json j = plan.to_json(s.op_name);
      // keep samples small
      if (const Json* ops = j.get("ops")) if (ops->a.size() > 12) { Json t = Json::Array(); for (size_t k = 0; k < 12; k++) t.push(ops->a[k]); t.push(Json::Str("... " + std::to_string(ops->a.size() - 12) + " more operations")); j.set("ops", t); }
      if (const Json* sc = j.get("sched")) if (sc->a.size() > 32) { Json t = Json::Array(); for (size_t k = 0; k < 32; k++) t.push(sc->a[k]); j.set("sched", t); }
      emit_result_line("P " + std::to_string(i) + " " + j.dump() + "\n");
    }
    RunResult r = execute_plan(s, plan);
    snprintf(b, sizeof b, "E %zu %016llx %d %llu\n", i, (unsigned long long)r.hash, r.nontrivial ? 1 : 0, (unsigned long long)r.steps);
    emit_result_line(b);
    // In-process determinism probe: re-execute every 16th run and compare the event-log hash.
    if ((i & 15) == 3) {
      RunResult r2 = execute_plan(s, plan);
      if (r2.hash != r.hash) { snprintf(b, sizeof b, "N %zu %016llx %016llx\n", i, (unsigned long long)r.hash, (unsigned long long)r2.hash); emit_result_line(b); }
      else { snprintf(b, sizeof b, "R %zu\n", i); emit_result_line(b); }
    }
    if ((pos & 63) == 63) dump_counters();
    // The ThreadSanitizer runtime never returns what it allocated for finished threads: after some thousand multi-threaded
    // runs one process fails inside the runtime ("failed to allocate ... errno 12"). Between two runs a worker therefore
    // retires (status 4) after a bounded number of runs and is replaced by a fresh process that continues at the next position.
    if (max_runs && pos + 1 - start_pos >= max_runs && pos + 1 < stripe.size()) { dump_counters(); hard_exit(4); }
  }
  dump_counters();
  emit_result_line("D\n");
  hard_exit(0);
}

static void spawn_worker(const CheckState& cs, Worker& w) {
  int pfd[2];
  if (pipe(pfd) != 0) { perror("pipe"); exit(2); }
  fflush(stdout); fflush(stderr);
  pid_t pid = fork();
  if (pid < 0) { perror("fork"); exit(2); }
  if (pid == 0) {
    close(pfd[0]);
    int efd = open(w.errpath.c_str(), O_WRONLY | O_CREAT | O_TRUNC, 0666);
    if (efd >= 0) { dup2(efd, 2); close(efd); }
    worker_main(cs, w.id, w.next_pos, pfd[1]);
    hard_exit(0);
  }
  close(pfd[1]);
  w.pid = pid; w.fd = pfd[0]; w.buf.clear(); w.current = -1; w.done = false; w.violation_reported = false;
}

struct Violation { size_t index; std::string cls, detail; uint64_t hash; std::string breadcrumb; };

static void apply_breadcrumb(Plan& plan, const std::string& kv) {
  size_t p = 0;
  while (p < kv.size()) {
    size_t e = kv.find(' ', p); if (e == std::string::npos) e = kv.size();
    std::string item = kv.substr(p, e - p); p = e + 1;
    size_t eq = item.find('=');
    if (eq == std::string::npos) continue;
    plan.set(item.substr(0, eq).c_str(), strtoll(item.c_str() + eq + 1, nullptr, 10));
  }
}

static int cmd_check(int argc, char** argv) {
  CheckState cs;
  if (argc < 4) { fprintf(stderr, "usage: simbin check <PROP> <quick|thorough> [options]\n"); return 2; }
  cs.prop = argv[2];
  cs.thorough = !strcmp(argv[3], "thorough");
  const char* es = getenv("VERIF_SEED");
  cs.verif_seed = es ? strtoull(es, nullptr, 10) : 1;
  double scale = 1.0;
  double budget_s = cs.thorough ? 1500 : 240;
  std::string only_scenario;
  std::string part_path;
  std::string hashes_path;
  for (int i = 4; i < argc; i++) {
    if (!strcmp(argv[i], "--workers") && i + 1 < argc) cs.K = atoi(argv[++i]);
    else if (!strcmp(argv[i], "--scale") && i + 1 < argc) scale = atof(argv[++i]);
    else if (!strcmp(argv[i], "--budget-s") && i + 1 < argc) budget_s = atof(argv[++i]);
    else if (!strcmp(argv[i], "--scenario") && i + 1 < argc) only_scenario = argv[++i];
    else if (!strcmp(argv[i], "--part") && i + 1 < argc) part_path = argv[++i];
    else if (!strcmp(argv[i], "--dump-hashes") && i + 1 < argc) hashes_path = argv[++i];
  }
  if (const char* e = getenv("VERIF_SCALE")) scale *= atof(e);
  if (const char* e = getenv("VERIF_BUDGET_S")) budget_s = atof(e);
#if defined(SIM_FLAVOUR_TSAN)
  if (cs.K > 8) cs.K = 8;
#endif
  cs.K = std::max(vm::kProfileCount, cs.K / vm::kProfileCount * vm::kProfileCount);

  for (auto& s : scen_vec()) {
    if (cs.prop != s.prop) continue;
    if (s.flavour[0] && strcmp(s.flavour, SIM_FLAVOUR) != 0) continue;
    if (!only_scenario.empty() && only_scenario != s.name) continue;
    if ((cs.thorough ? s.weight_thorough : s.weight_quick) <= 0) continue;
    cs.ss.push_back(&s);
  }
  if (cs.ss.empty()) { fprintf(stderr, "no scenario for property %s in flavour %s\n", cs.prop.c_str(), SIM_FLAVOUR); return 2; }
  cs.order = build_order(cs.ss, cs.thorough, scale);
  cs.stripes.assign(size_t(cs.K), {});
  {
    int groups = cs.K / vm::kProfileCount;
    for (size_t i = 0; i < cs.order.size(); i++) {
      int profile = int(i % vm::kProfileCount);
      int member = int((i / vm::kProfileCount) % size_t(groups));
      cs.stripes[size_t(member * vm::kProfileCount + profile)].push_back(i);
    }
  }

  std::string outdir = verif_dir() + "/out";
  mkdirs(outdir + "/logs/"); mkdirs(outdir + "/replays/"); mkdirs(outdir + "/parts/"); mkdirs(outdir + "/tmp/");
  std::vector<KnownFinding> known = load_known_findings();

  double t0 = now_s();
  std::vector<Worker> workers(static_cast<size_t>(cs.K));
  for (int w = 0; w < cs.K; w++) {
    workers[size_t(w)].id = w;
    workers[size_t(w)].errpath = outdir + "/logs/" + cs.prop + "-" + SIM_FLAVOUR + "-w" + std::to_string(w) + ".err";
    spawn_worker(cs, workers[size_t(w)]);
  }

  uint64_t evaluations = 0, steps = 0, reexecuted = 0, worker_replacements = 0;
  std::unordered_set<uint64_t> distinct;
  std::vector<uint64_t> run_hash(cs.order.size(), 0);
  std::vector<uint8_t> run_done(cs.order.size(), 0);
  std::map<std::string, uint64_t> counters;
  std::map<int, std::pair<uint64_t, uint64_t>> per_scen;   // runs, nontrivial
  std::vector<std::pair<size_t, std::string>> samples;
  std::vector<Violation> violations;
  std::set<std::string> known_printed;
  std::vector<std::string> nondeterminism;
  bool stop = false;
  bool budget_hit = false;

  std::string current_breadcrumb;
  auto handle_violation = [&](size_t index, const std::string& cls, const std::string& detail, uint64_t hash) {
    for (auto& k : known) {
      if (!k.fixed && k.prop == cs.prop && !k.cls.empty() && cls == k.cls) {
        if (known_printed.insert(k.text).second) printf("KNOWN-FINDING: %s\n", k.text.c_str() + 8 + (k.text[8] == ' ' ? 1 : 0));
        counters["known_finding_hits"]++;
        return;
      }
    }
    violations.push_back(Violation{index, cls, detail, hash, current_breadcrumb});
    stop = true;
  };

  size_t live = size_t(cs.K);
  while (live > 0) {
    std::vector<struct pollfd> pfds;
    std::vector<size_t> idx;
    for (size_t w = 0; w < workers.size(); w++) if (workers[w].fd >= 0) { pfds.push_back({workers[w].fd, POLLIN, 0}); idx.push_back(w); }
    if (pfds.empty()) break;
    poll(pfds.data(), nfds_t(pfds.size()), 200);
    double now = now_s();
    if (!stop && now - t0 > budget_s) { stop = true; budget_hit = true; }
    for (size_t k = 0; k < pfds.size(); k++) {
      Worker& w = workers[idx[k]];
      bool eof = false;
      if (pfds[k].revents & (POLLIN | POLLHUP)) {
        char buf[65536];
        ssize_t n = read(w.fd, buf, sizeof buf);
        if (n > 0) w.buf.append(buf, size_t(n));
        else if (n == 0) eof = true;
      }
      size_t p = 0;
      for (;;) {
        size_t e = w.buf.find('\n', p);
        if (e == std::string::npos) break;
        std::string line = w.buf.substr(p, e - p);
        p = e + 1;
        if (line.empty()) continue;
        switch (line[0]) {
          case 'S': { size_t i, pos; if (sscanf(line.c_str(), "S %zu %zu", &i, &pos) == 2) { w.current = (long long)i; w.current_since = now; w.next_pos = pos + 1; w.breadcrumb.clear(); } break; }
          case 'B': { size_t i; int n = 0; if (sscanf(line.c_str(), "B %zu %n", &i, &n) >= 1) { w.breadcrumb = line.substr(size_t(n)); w.current_since = now; } break; }
          case 'E': {
            unsigned long long i, h, st; int nt;
            if (sscanf(line.c_str(), "E %llu %llx %d %llu", &i, &h, &nt, &st) == 4 && i < cs.order.size()) {
              evaluations++; steps += st;
              run_hash[i] = h; run_done[i] = 1;
              auto& ps = per_scen[cs.order[i].scen]; ps.first++;
              if (nt) { distinct.insert(h); ps.second++; }
              w.current = -1;
            }
            break;
          }
          case 'V': {
            Outcome o; parse_result_lines(line + "\n", o, nullptr);
            size_t i = 0; sscanf(line.c_str(), "V %zu", &i);
            current_breadcrumb = w.breadcrumb;
            w.violation_reported = true;
            handle_violation(i, o.cls, unescape_detail(o.detail), o.hash);
            break;
          }
          case 'N': nondeterminism.push_back(line); stop = true; break;
          case 'R': reexecuted++; break;
          case 'C': { char name[200]; unsigned long long v; if (sscanf(line.c_str(), "C %199s %llu", name, &v) == 2) counters[name] += v; break; }
          case 'P': { size_t i; int n = 0; if (sscanf(line.c_str(), "P %zu %n", &i, &n) >= 1 && samples.size() < 64) samples.emplace_back(i, line.substr(size_t(n))); break; }
          case 'D': w.done = true; break;
        }
      }
      w.buf.erase(0, p);
      if (!eof && w.current >= 0 && now - w.current_since > 180) {
        kill(w.pid, SIGKILL);
        current_breadcrumb = w.breadcrumb;
        handle_violation(size_t(w.current), "hang", "worker did not finish the run within 180 s", 0);
        eof = true;
      }
      if (eof) {
        int status = 0;
        waitpid(w.pid, &status, 0);
        close(w.fd); w.fd = -1;
        bool clean = w.done && WIFEXITED(status) && WEXITSTATUS(status) == 0;
        bool reported = WIFEXITED(status) && WEXITSTATUS(status) == 3;
        // exit status 4: the worker ran out of a process resource (threads) and wants to be replaced; the interrupted run is
        // repeated by the new worker (at most three times per position, then it is a harness error like any other exit)
        if (WIFEXITED(status) && WEXITSTATUS(status) == 4 && w.current >= 0 && w.next_pos > 0 && w.restart_requests < 1000) {
          w.restart_requests++;
          w.next_pos--; w.current = -1;
          worker_replacements++;
        }
        else if (WIFEXITED(status) && WEXITSTATUS(status) == 4 && w.current < 0) worker_replacements++;   // retired between two runs (bounded lifetime)
        if (!clean && !reported && !w.violation_reported && w.current >= 0 && !(stop && WIFSIGNALED(status) && WTERMSIG(status) == SIGKILL)) {
          std::string text = tail_of_file(w.errpath, 200000);
          std::string detail;
          std::string cls = classify_sanitizer_text(text, &detail);
          if (cls.empty()) {
            char b[64];
            if (WIFSIGNALED(status)) snprintf(b, sizeof b, "signal:%d", WTERMSIG(status)); else snprintf(b, sizeof b, "exit:%d", WIFEXITED(status) ? WEXITSTATUS(status) : -1);
            cls = b; detail = text.size() > 2000 ? text.substr(text.size() - 2000) : text;
          }
          current_breadcrumb = w.breadcrumb;
          handle_violation(size_t(w.current), cls, detail, 0);
        }
        if (!clean && !stop && w.next_pos < cs.stripes[size_t(w.id)].size()) spawn_worker(cs, w);   // restart after the failed run
        else live--;
      }
    }
    if (stop) {
      for (auto& w : workers) if (w.fd >= 0) { kill(w.pid, SIGKILL); }
      for (auto& w : workers) if (w.fd >= 0) { int st; waitpid(w.pid, &st, 0); close(w.fd); w.fd = -1; }
      break;
    }
  }

  // Determinism gate across processes: re-execute a few runs in fresh children and compare hashes.
  uint64_t gate_checked = 0;
  if (violations.empty() && nondeterminism.empty()) {
    size_t want = cs.thorough ? 48 : 12;
    for (size_t i = 0; i < cs.order.size() && gate_checked < want; i++) {
      if (!run_done[i]) continue;
      if (i % 5 != 0 && i >= 8) continue;
      const Scenario& s = *cs.ss[size_t(cs.order[i].scen)];
      Plan plan = make_plan(s, cs.verif_seed, cs.order[i].local, cs.thorough, int(i % vm::kProfileCount));
      Outcome o = run_in_child(s, plan);
      gate_checked++;
      if (!o.ok || o.hash != run_hash[i]) {
        char b[256];
        snprintf(b, sizeof b, "fresh-process run of index %zu (%s/%s seed %llu) gave %s hash %016llx, worker gave %016llx", i, s.prop, s.name,
                 (unsigned long long)plan.seed, o.ok ? "ok" : o.cls.c_str(), (unsigned long long)o.hash, (unsigned long long)run_hash[i]);
        nondeterminism.push_back(b);
      }
    }
  }

  int exit_code = 0;
  std::vector<std::string> replay_paths;
  if (!nondeterminism.empty()) {
    for (auto& n : nondeterminism) fprintf(stderr, "HARNESS-NONDETERMINISM %s\n", n.c_str());
    exit_code = 2;
  }

  // Minimise and confirm violations (distinct classes only).
  // A candidate found inside a long-lived worker must reproduce in a fresh process before it is reported. A defect that
  // corrupts memory can make a run depend on what the worker executed before (addresses, stale contents); then another
  // candidate of the same class is tried (up to 6 per class). Only a class none of whose candidates reproduces is a
  // harness problem (exit 2), and only when nothing else was confirmed.
  std::set<std::string> seen_cls;
  std::map<std::string, int> attempts;
  std::set<std::string> unconfirmed_cls;
  std::map<std::string, std::pair<std::string, std::string>> unconfirmed_first;   // class -> (replay path, replay text) of its first candidate
  size_t confirmed = 0;
  for (auto& v : violations) {
    if (seen_cls.count(v.cls)) continue;
    if (attempts[v.cls] >= 6) continue;
    attempts[v.cls]++;
    if (confirmed >= 3) break;
    const Scenario& s = *cs.ss[size_t(cs.order[v.index].scen)];
    Plan plan = make_plan(s, cs.verif_seed, cs.order[v.index].local, cs.thorough, int(v.index % vm::kProfileCount));
    if (!v.breadcrumb.empty()) apply_breadcrumb(plan, v.breadcrumb);
    fprintf(stderr, "[check] candidate violation class=%s scenario=%s seed=%llu; reproducing and minimising...\n", v.cls.c_str(), s.name, (unsigned long long)plan.seed);
    Outcome first = run_in_child(s, plan);
    if (!first.violation) {
      fprintf(stderr, "[check] note: candidate of class %s at index %zu did not reproduce in a fresh process (got %s); trying another candidate of that class\n%s\n", v.cls.c_str(), v.index, first.ok ? "ok" : first.cls.c_str(), v.detail.c_str());
      unconfirmed_cls.insert(v.cls);
      if (!unconfirmed_first.count(v.cls)) {
        Json rj = plan.to_json(s.op_name);
        rj.set("flavour", Json::Str(SIM_FLAVOUR));
        Json ex = Json::Object();
        ex.set("class", Json::Str(v.cls)); ex.set("detail", Json::Str(v.detail));
        ex.set("reproduces_in_isolation", Json::Bool(false));
        ex.set("note", Json::Str("reported inside a long-lived worker; the same plan executed alone in a fresh process did not produce the report"));
        rj.set("expect", ex);
        char name[256];
        snprintf(name, sizeof name, "%s/replays/%s-%s-%llu-%08x.json", outdir.c_str(), cs.prop.c_str(), s.name, (unsigned long long)plan.seed, unsigned(hash_str(v.cls.c_str())));
        unconfirmed_first[v.cls] = std::make_pair(std::string(name), rj.dump(1) + "\n");
      }
      continue;
    }
    seen_cls.insert(v.cls);
    unconfirmed_cls.erase(v.cls);
    Minimiser m{s, first.cls, cs.thorough ? 600 : 300, 0, now_s() + (cs.thorough ? 240 : 120)};
    Plan small = m.minimise(plan);
    Outcome fin = run_in_child(s, small);
    if (!fin.violation || fin.cls != first.cls) { small = plan; fin = first; }
    Json rj = small.to_json(s.op_name);
    rj.set("flavour", Json::Str(SIM_FLAVOUR));
    Json ex = Json::Object();
    ex.set("class", Json::Str(fin.cls));
    char hb[32]; snprintf(hb, sizeof hb, "%016llx", (unsigned long long)fin.hash);
    ex.set("hash", Json::Str(hb));
    ex.set("detail", Json::Str(fin.detail));
    ex.set("original_ops", Json::Int(int64_t(plan.ops.size())));
    ex.set("original_faults", Json::Int(int64_t(plan.fault_count())));
    ex.set("minimiser_runs", Json::Int(m.runs));
    rj.set("expect", ex);
    char name[256];
    snprintf(name, sizeof name, "%s/replays/%s-%s-%llu-%08x.json", outdir.c_str(), cs.prop.c_str(), s.name, (unsigned long long)plan.seed, unsigned(hash_str(fin.cls.c_str())));
    write_file(name, rj.dump(1) + "\n");
    // Fresh-process replays (exec), twice.
    bool replay_ok = true;
    for (int r = 0; r < 2; r++) {
      std::string cmd = std::string("/proc/self/exe");
      char self[4096]; ssize_t n = readlink("/proc/self/exe", self, sizeof self - 1); self[n > 0 ? n : 0] = 0;
      std::string outp = outdir + "/tmp/replay-" + std::to_string(getpid()) + ".out";
      std::string c = std::string("'") + self + "' replay '" + name + "' > '" + outp + "' 2>/dev/null";
      int rc = system(c.c_str());
      std::string out; read_file(outp, out);
      (void)rc;
      if (out.find("REPLAY violation class=" + fin.cls + " hash=" + hb) == std::string::npos) { replay_ok = false; fprintf(stderr, "HARNESS-DEFECT replay %d of %s did not reproduce class/hash: %s\n", r, name, out.c_str()); }
    }
    if (!replay_ok) { exit_code = 2; continue; }
    fprintf(stderr, "[check] violation class=%s\n%s\n[check] minimised %zu ops/%zu faults -> %zu ops/%zu faults in %d runs\n", fin.cls.c_str(), fin.detail.c_str(),
            plan.ops.size(), plan.fault_count(), small.ops.size(), small.fault_count(), m.runs);
    printf("VIOLATION property=%s replay=%s\n", cs.prop.c_str(), name);
    replay_paths.push_back(name);
    confirmed++;
    if (exit_code == 0) exit_code = 1;
  }

  if (confirmed == 0 && !unconfirmed_cls.empty()) {
    // A ThreadSanitizer report is evidence by itself (the runtime has no false positives with the annotations in place), but
    // whether the runtime still remembers the first of two racing accesses depends on its shadow-cell eviction, i.e. on what
    // the worker process executed before: such a report may not reappear when the plan runs alone. It is then reported with
    // the plan of its first candidate and marked as not reproducing in isolation. Every other class that does not reproduce
    // is a harness problem.
    for (auto& c : unconfirmed_cls) {
      if (c.compare(0, 5, "tsan:") == 0 && unconfirmed_first.count(c)) {
        write_file(unconfirmed_first[c].first, unconfirmed_first[c].second);
        fprintf(stderr, "[check] violation class=%s (ThreadSanitizer report from a long-lived worker; not reproduced by the plan alone in a fresh process)\n", c.c_str());
        printf("VIOLATION property=%s replay=%s\n", cs.prop.c_str(), unconfirmed_first[c].first.c_str());
        replay_paths.push_back(unconfirmed_first[c].first);
        confirmed++;
        if (exit_code == 0) exit_code = 1;
      }
      else {
        fprintf(stderr, "HARNESS-DEFECT no candidate of class %s reproduced in a fresh process\n", c.c_str());
        exit_code = 2;
      }
    }
  }

  double wall = now_s() - t0;
  if (!hashes_path.empty()) {
    // one line per executed run: index, scenario, event-log hash (used by tools/determinism.sh to compare executions
    // made with different worker counts / in different processes)
    std::string out;
    for (size_t i = 0; i < cs.order.size(); i++) if (run_done[i]) { char b[160]; snprintf(b, sizeof b, "%zu %s %016llx\n", i, cs.ss[size_t(cs.order[i].scen)]->name, (unsigned long long)run_hash[i]); out += b; }
    write_file(hashes_path, out);
  }

  // Evidence part
  Json ev = Json::Object();
  ev.set("property_id", Json::Str(cs.prop));
  ev.set("tier", Json::Str(cs.thorough ? "thorough" : "quick"));
  ev.set("seed", Json::Int(int64_t(cs.verif_seed)));
  ev.set("flavour", Json::Str(SIM_FLAVOUR));
  ev.set("wall_s", Json::Double(wall));
  ev.set("violations", Json::Int(int64_t(confirmed)));
  ev.set("exit_code", Json::Int(exit_code));
  Json cov = Json::Object();
  cov.set("evaluations", Json::Int(int64_t(evaluations)));
  cov.set("distinct_nontrivial", Json::Int(int64_t(distinct.size())));
  cov.set("planned_runs", Json::Int(int64_t(cs.order.size())));
  cov.set("budget_hit", Json::Bool(budget_hit));
  cov.set("steps", Json::Int(int64_t(steps)));
  cov.set("runs_per_hour", Json::Int(int64_t(wall > 0 ? double(evaluations) / wall * 3600.0 : 0)));
  cov.set("workers", Json::Int(cs.K));
  Json sc = Json::Object();
  for (size_t i = 0; i < cs.ss.size(); i++) {
    Json o = Json::Object();
    o.set("runs", Json::Int(int64_t(per_scen[int(i)].first)));
    o.set("nontrivial", Json::Int(int64_t(per_scen[int(i)].second)));
    sc.set(cs.ss[i]->name, o);
  }
  cov.set("scenarios", sc);
  Json cj = Json::Object();
  for (auto& kv : counters) cj.set(kv.first, Json::Int(int64_t(kv.second)));
  cov.set("counters", cj);
  Json det = Json::Object();
  det.set("reexecuted_in_process", Json::Int(int64_t(reexecuted)));
  det.set("workers_replaced_on_request", Json::Int(int64_t(worker_replacements)));
  det.set("reexecuted_fresh_process", Json::Int(int64_t(gate_checked)));
  det.set("mismatches", Json::Int(int64_t(nondeterminism.size())));
  cov.set("determinism", det);
  Json sj = Json::Array();
  std::sort(samples.begin(), samples.end());
  std::set<int> sampled_scen;
  for (auto& sm : samples) {
    int scn = cs.order[sm.first].scen;
    if (sampled_scen.count(scn) && sj.a.size() >= cs.ss.size()) continue;
    sampled_scen.insert(scn);
    Json pj; if (Json::parse(sm.second, pj)) sj.push(pj);
    if (sj.a.size() >= 6) break;
  }
  cov.set("samples", sj);
  ev.set("coverage", cov);
  Json rp = Json::Array(); for (auto& r : replay_paths) rp.push(Json::Str(r));
  ev.set("replays", rp);
  if (part_path.empty()) part_path = outdir + "/parts/" + cs.prop + "-" + SIM_FLAVOUR + ".json";
  write_file(part_path, ev.dump(1) + "\n");

  fprintf(stderr, "[check] %s %s flavour=%s: %llu runs (%zu distinct non-trivial) in %.1fs, %zu violation(s), exit %d%s\n", cs.prop.c_str(), cs.thorough ? "thorough" : "quick",
          SIM_FLAVOUR, (unsigned long long)evaluations, distinct.size(), wall, confirmed, exit_code, budget_hit ? " [time budget reached]" : "");
  fflush(stdout);
  return exit_code;
}

// ---------------------------------------------------------------------------------------------------------------
// replay / run-seed / list
// ---------------------------------------------------------------------------------------------------------------

static int cmd_replay(int argc, char** argv) {
  if (argc < 3) return 2;
  bool verbose_flag = false;
  for (int i = 3; i < argc; i++) if (!strcmp(argv[i], "--verbose") || !strcmp(argv[i], "-v")) verbose_flag = true;
  std::string text;
  if (!read_file(argv[2], text)) { fprintf(stderr, "cannot read %s\n", argv[2]); return 2; }
  Json j; std::string err;
  if (!Json::parse(text, j, &err)) { fprintf(stderr, "bad replay file: %s\n", err.c_str()); return 2; }
  Plan plan;
  if (!Plan::from_json(j, plan)) { fprintf(stderr, "bad plan\n"); return 2; }
  std::string fl = j.get_str("flavour");
  if (!fl.empty() && fl != SIM_FLAVOUR) { fprintf(stderr, "replay file is for flavour %s, this binary is %s\n", fl.c_str(), SIM_FLAVOUR); return 2; }
  const Scenario* s = find_scenario(plan.prop, plan.scenario);
  if (!s) { fprintf(stderr, "unknown scenario %s/%s\n", plan.prop.c_str(), plan.scenario.c_str()); return 2; }
  Outcome o = run_in_child(*s, plan, verbose_flag);
  if (o.violation) {
    printf("REPLAY violation class=%s hash=%016llx\n%s\n", o.cls.c_str(), (unsigned long long)o.hash, o.detail.c_str());
    const Json* ex = j.get("expect");
    if (ex) {
      bool same = ex->get_str("class") == o.cls;
      printf("expected class=%s -> %s\n", ex->get_str("class").c_str(), same ? "REPRODUCED" : "DIFFERENT");
    }
    printf("VIOLATION property=%s replay=%s\n", plan.prop.c_str(), argv[2]);
    return 1;
  }
  printf("REPLAY ok hash=%016llx\n", (unsigned long long)o.hash);
  return 0;
}

static int cmd_list() {
  for (auto& s : scen_vec()) printf("%s %-24s flavour=%-6s quick=%d thorough=%d\n", s.prop, s.name, s.flavour[0] ? s.flavour : "any", s.weight_quick, s.weight_thorough);
  return 0;
}

// `simbin seed <PROP> <scenario> <local-index> [--thorough] [--profile N] [-v]`: executes one generated run.
static int cmd_seed(int argc, char** argv) {
  if (argc < 5) return 2;
  const Scenario* s = find_scenario(argv[2], argv[3]);
  if (!s) { fprintf(stderr, "unknown scenario\n"); return 2; }
  uint64_t local = strtoull(argv[4], nullptr, 10);
  bool thorough = false, verbose_flag = false, dump = false; int profile = -1;
  for (int i = 5; i < argc; i++) {
    if (!strcmp(argv[i], "--thorough")) thorough = true;
    else if (!strcmp(argv[i], "-v")) verbose_flag = true;
    else if (!strcmp(argv[i], "--dump")) dump = true;
    else if (!strcmp(argv[i], "--profile") && i + 1 < argc) profile = atoi(argv[++i]);
  }
  const char* es = getenv("VERIF_SEED");
  uint64_t vs = es ? strtoull(es, nullptr, 10) : 1;
  if (profile < 0) profile = 0;
  Plan plan = make_plan(*s, vs, local, thorough, profile);
  if (dump) printf("%s\n", plan.to_json(s->op_name).dump(1).c_str());
  Outcome o = run_in_child(*s, plan, verbose_flag);
  if (o.violation) { printf("RESULT violation class=%s hash=%016llx\n%s\n", o.cls.c_str(), (unsigned long long)o.hash, o.detail.c_str()); return 1; }
  printf("RESULT ok hash=%016llx nontrivial=%d steps=%llu\n", (unsigned long long)o.hash, o.nontrivial, (unsigned long long)o.steps);
  return 0;
}

static int cmd_info(int argc, char** argv) {
  // prints the static description of a property as JSON (used by the check script when merging evidence)
  if (argc < 3) return 2;
  for (auto& p : info_vec()) {
    if (strcmp(p.prop, argv[2]) != 0) continue;
    Json j = Json::Object();
    j.set("level", Json::Str(p.level));
    j.set("rule", Json::Str(p.rule));
    Json a = Json::Array(); for (const char* const* q = p.assumptions; q && *q; q++) a.push(Json::Str(*q)); j.set("assumptions", a);
    Json r = Json::Array(); for (const char* const* q = p.real_components; q && *q; q++) r.push(Json::Str(*q)); j.set("components_real", r);
    Json st = Json::Array(); for (const char* const* q = p.stub_components; q && *q; q++) st.push(Json::Str(*q)); j.set("components_stubbed", st);
    printf("%s\n", j.dump(1).c_str());
    return 0;
  }
  return 2;
}

int runner_main(int argc, char** argv) {
  // Disable ASLR (best effort) so that heap addresses repeat across processes as well.
  if (!getenv("SIM_NOASLR_DONE")) {
    setenv("SIM_NOASLR_DONE", "1", 1);
    int pers = personality(0xffffffff);
    if (pers != -1 && !(pers & ADDR_NO_RANDOMIZE) && personality(pers | ADDR_NO_RANDOMIZE) != -1) execv("/proc/self/exe", argv);
  }
  tsan_ignore_begin();
  signal(SIGPIPE, SIG_IGN);
  if (argc < 2) { fprintf(stderr, "usage: simbin <check|replay|seed|list|info> ...\n"); return 2; }
  std::string cmd = argv[1];
  int rc = 2;
  if (cmd == "check") rc = cmd_check(argc, argv);
  else if (cmd == "replay") rc = cmd_replay(argc, argv);
  else if (cmd == "seed") rc = cmd_seed(argc, argv);
  else if (cmd == "list") rc = cmd_list();
  else if (cmd == "info") rc = cmd_info(argc, argv);
  hard_exit(rc);
}

} // namespace sim
