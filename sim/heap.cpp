// SimHeap: link-time wrappers of malloc/realloc/free as referenced from asmjit (and harness) objects.
//
// Only objects linked with -Wl,--wrap are affected: libstdc++/libc internals and the sanitizer runtime keep the real
// allocator, so every wrapped request comes from asmjit code (or from asmjit inline code compiled into the harness).
#include "sim/sim.h"
#include "sim/internal.h"

#include <stdlib.h>
#include <string.h>
#include <errno.h>
#include <map>

extern "C" {
void* __real_malloc(size_t);
void* __real_realloc(void*, size_t);
void __real_free(void*);
}

namespace sim {
namespace heap {

struct Block { size_t size; uint64_t gen; size_t op; uint64_t serial; };

struct State {
  std::map<uintptr_t, Block> blocks;
  bool armed = false;
  int junk_mode = 0;
  int realloc_policy = 0;
  Rng rng;
  uint64_t gen = 1;
  uint64_t serial = 0;
  uint64_t total_requests = 0;
  std::vector<void*> shift;
  // placement policy 1: larger requests (arena blocks) are carved from the top of a private slab downwards, so that blocks
  // allocated later lie BELOW earlier ones - code that orders objects by address sees the opposite order
  int placement = 0;
  uint8_t* slab = nullptr;
  size_t slab_used = 0;
  static constexpr size_t kSlabSize = size_t(8) << 20;
  bool in_slab(const void* p) const { return slab && uintptr_t(p) - uintptr_t(slab) < kSlabSize; }
};

static State& st() { static State* s = new State(); return *s; }

static void junk_fill(void* p, size_t n) {
  State& s = st();
  switch (s.junk_mode) {
    case 1: memset(p, 0x00, n); break;
    case 2: memset(p, 0xFF, n); break;
    case 3: {
      uint8_t* b = static_cast<uint8_t*>(p);
      uint64_t v = s.rng.next();
      for (size_t i = 0; i < n; i++) { if ((i & 7) == 0) v = v * 6364136223846793005ull + 1442695040888963407ull; b[i] = uint8_t(v >> ((i & 7) * 8)); }
      break;
    }
    // Never leave what the process' allocator happens to hand back: a defect that reads uninitialised memory must behave
    // the same in the worker that found it and in the fresh process that replays it.
    default: memset(p, 0xBE, n); break;
  }
}

void configure(int junk_mode, int realloc_policy, int shift_blocks, uint64_t seed) {
  State& s = st();
  s.junk_mode = junk_mode;
  s.realloc_policy = realloc_policy;
  s.rng = Rng(mix64(seed ^ 0x68656170ull));
  for (void* p : s.shift) __real_free(p);
  s.shift.clear();
  for (int i = 0; i < shift_blocks; i++) s.shift.push_back(__real_malloc(size_t(16 + s.rng.below(4096))));
}

void arm(bool on) { st().armed = on; }

void set_placement(int policy) { State& s = st(); s.placement = policy; if (policy && !s.slab) s.slab = static_cast<uint8_t*>(__real_malloc(State::kSlabSize)); }

void reset_run_generation() {
  State& s = st();
  s.gen++;
  s.armed = false;
  s.junk_mode = 0;
  s.realloc_policy = 0;
  s.placement = 0;
  s.slab_used = 0;
  for (void* p : s.shift) __real_free(p);
  s.shift.clear();
}

size_t live_blocks_this_run() {
  State& s = st();
  size_t n = 0;
  for (auto& kv : s.blocks) if (kv.second.gen == s.gen) n++;
  return n;
}

std::string describe_live_blocks_this_run(size_t max) {
  State& s = st();
  std::string out;
  size_t n = 0;
  for (auto& kv : s.blocks) if (kv.second.gen == s.gen) {
    if (n++ >= max) { out += " ..."; break; }
    char b[96]; snprintf(b, sizeof b, " [size=%zu op=%zu serial=%llu]", kv.second.size, kv.second.op, (unsigned long long)kv.second.serial);
    out += b;
  }
  return out;
}

bool find_block(const void* p, size_t* size_out, const void** base_out) {
  State& s = st();
  uintptr_t a = uintptr_t(p);
  auto it = s.blocks.upper_bound(a);
  if (it == s.blocks.begin()) return false;
  --it;
  if (a >= it->first + it->second.size && !(it->second.size == 0 && a == it->first)) return false;
  if (size_out) *size_out = it->second.size;
  if (base_out) *base_out = reinterpret_cast<const void*>(it->first);
  return true;
}

uint64_t total_requests() { return st().total_requests; }

static void track(void* p, size_t n) {
  State& s = st();
  Block b{n, s.gen, g.in_run ? current_op_index() : 0, s.serial++};
  s.blocks[uintptr_t(p)] = b;
}

} // namespace heap
} // namespace sim

using namespace sim;

extern "C" void* __wrap_malloc(size_t n) {
  HarnessScope hs;
  heap::State& s = heap::st();
  s.total_requests++;
  if (s.armed && g.in_run) {
    sched_point(kSchedHeap);
    if (fault_fires(kFaultMalloc)) { errno = ENOMEM; return nullptr; }
  }
  void* p = nullptr;
  size_t rounded = (n + 15) & ~size_t(15);
  if (s.armed && g.in_run && s.placement == 1 && s.slab && n >= 1024 && n <= (size_t(256) << 10) && s.slab_used + rounded <= heap::State::kSlabSize) {
    s.slab_used += rounded;
    p = s.slab + heap::State::kSlabSize - s.slab_used;
  }
  else p = __real_malloc(n);
  if (p) {
    heap::track(p, n);
    if (s.armed) heap::junk_fill(p, n);
  }
  return p;
}

extern "C" void __wrap_free(void* p) {
  if (!p) return;
  HarnessScope hs;
  heap::State& s = heap::st();
  auto it = s.blocks.find(uintptr_t(p));
  if (it == s.blocks.end()) {
    if (g.in_run) fail("heap:foreign-free", "free() of a pointer that is not a live block allocated through malloc/realloc by asmjit");
    __real_free(p);
    return;
  }
  if (s.armed && g.in_run) sched_point(kSchedHeap);
#if !defined(SIM_FLAVOUR_ASAN) && !defined(SIM_FLAVOUR_DBG)
  if (s.armed) memset(p, 0xDD, it->second.size);
#endif
  bool slab_block = s.in_slab(p);
  if (slab_block) memset(p, 0xDD, it->second.size);
  s.blocks.erase(it);
  if (!slab_block) __real_free(p);
}

extern "C" void* __wrap_realloc(void* p, size_t n) {
  if (!p) return __wrap_malloc(n);
  HarnessScope hs;
  heap::State& s = heap::st();
  s.total_requests++;
  auto it = s.blocks.find(uintptr_t(p));
  if (it == s.blocks.end()) {
    if (g.in_run) fail("heap:foreign-realloc", "realloc() of a pointer that is not a live block allocated by asmjit");
    return __real_realloc(p, n);
  }
  if (s.armed && g.in_run) {
    sched_point(kSchedHeap);
    if (fault_fires(kFaultRealloc)) { errno = ENOMEM; return nullptr; }
  }
  size_t old = it->second.size;
  void* q;
  if (s.in_slab(p)) {
    // a slab block is never resized in place: move it to the general heap
    if (n == 0) { s.blocks.erase(it); return nullptr; }
    q = __real_malloc(n);
    if (!q) return nullptr;
    memcpy(q, p, old < n ? old : n);
    memset(p, 0xDD, old);
  }
  else if (s.armed && s.realloc_policy == 1 && n != 0) {
    q = __real_malloc(n);
    if (!q) return nullptr;
    memcpy(q, p, old < n ? old : n);
#if !defined(SIM_FLAVOUR_ASAN) && !defined(SIM_FLAVOUR_DBG)
    memset(p, 0xDD, old);
#endif
    __real_free(p);
  }
  else {
    q = __real_realloc(p, n);
    if (!q && n != 0) return nullptr;
  }
  s.blocks.erase(uintptr_t(p));
  if (q) {
    heap::track(q, n);
    if (s.armed && n > old) heap::junk_fill(static_cast<uint8_t*>(q) + old, n - old);
  }
  return q;
}
