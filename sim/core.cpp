// simkit core: JSON, plans, event log, counters, fault plumbing, knobs, hooks H1/H3/H4.
#include "sim/sim.h"
#include "sim/internal.h"

#include <stdio.h>
#include <stdlib.h>
#include <string.h>
#include <unistd.h>
#include <sys/syscall.h>
#include <errno.h>
#include <algorithm>
#include <execinfo.h>

extern "C" void __sanitizer_print_stack_trace(void);
extern "C" long __real_syscall(long, ...);
extern "C" void __sanitizer_symbolize_pc(void* pc, const char* fmt, char* out_buf, size_t out_buf_size);

namespace sim {

// ---------------------------------------------------------------------------------------------------------------
// JSON
// ---------------------------------------------------------------------------------------------------------------

static void json_escape(const std::string& s, std::string& out) {
  out += '"';
  for (unsigned char c : s) {
    switch (c) {
      case '"': out += "\\\""; break;
      case '\\': out += "\\\\"; break;
      case '\n': out += "\\n"; break;
      case '\r': out += "\\r"; break;
      case '\t': out += "\\t"; break;
      default:
        if (c < 0x20 || c >= 0x7f) { char b[8]; snprintf(b, sizeof b, "\\u%04x", c); out += b; }
        else out += char(c);
    }
  }
  out += '"';
}

static void json_dump(const Json& j, std::string& out, int indent, int depth) {
  auto nl = [&](int d) { if (indent >= 0) { out += '\n'; out.append(size_t(indent * d), ' '); } };
  switch (j.type) {
    case Json::kNull: out += "null"; break;
    case Json::kBool: out += j.b ? "true" : "false"; break;
    case Json::kInt: { char b[32]; snprintf(b, sizeof b, "%lld", (long long)j.i); out += b; break; }
    case Json::kDouble: { char b[48]; snprintf(b, sizeof b, "%.6g", j.d); if (!strpbrk(b, ".einf")) strcat(b, ".0"); if (strpbrk(b, "nif")) strcpy(b, "0.0"); out += b; break; }
    case Json::kString: json_escape(j.s, out); break;
    case Json::kArray: {
      out += '[';
      bool simple = true;
      for (auto& e : j.a) if (e.type == Json::kArray || e.type == Json::kObject) simple = false;
      for (size_t i = 0; i < j.a.size(); i++) {
        if (i) out += ',';
        if (!simple) nl(depth + 1); else if (i) out += ' ';
        json_dump(j.a[i], out, simple ? -1 : indent, depth + 1);
      }
      if (!simple && !j.a.empty()) nl(depth);
      out += ']';
      break;
    }
    case Json::kObject: {
      out += '{';
      for (size_t i = 0; i < j.o.size(); i++) {
        if (i) out += ',';
        nl(depth + 1);
        json_escape(j.o[i].first, out);
        out += indent >= 0 ? ": " : ":";
        json_dump(j.o[i].second, out, indent, depth + 1);
      }
      if (!j.o.empty()) nl(depth);
      out += '}';
      break;
    }
  }
}

std::string Json::dump(int indent) const { std::string out; json_dump(*this, out, indent, 0); return out; }

namespace {
struct Parser {
  const char* p; const char* e; std::string err;
  void ws() { while (p < e && (*p == ' ' || *p == '\n' || *p == '\r' || *p == '\t')) p++; }
  bool fail(const char* m) { if (err.empty()) err = m; return false; }
  bool str(std::string& out) {
    if (p >= e || *p != '"') return fail("expected string");
    p++;
    while (p < e && *p != '"') {
      if (*p == '\\') {
        p++; if (p >= e) return fail("bad escape");
        switch (*p) {
          case 'n': out += '\n'; break; case 't': out += '\t'; break; case 'r': out += '\r'; break;
          case 'b': out += '\b'; break; case 'f': out += '\f'; break;
          case 'u': { if (e - p < 5) return fail("bad \\u"); char b[5] = {p[1], p[2], p[3], p[4], 0}; out += char(strtol(b, nullptr, 16)); p += 4; break; }
          default: out += *p;
        }
        p++;
      } else out += *p++;
    }
    if (p >= e) return fail("unterminated string");
    p++;
    return true;
  }
  bool val(Json& j) {
    ws();
    if (p >= e) return fail("unexpected end");
    if (*p == '{') {
      p++; j = Json::Object(); ws();
      if (p < e && *p == '}') { p++; return true; }
      for (;;) {
        ws(); std::string k; if (!str(k)) return false; ws();
        if (p >= e || *p != ':') return fail("expected ':'");
        p++; Json v; if (!val(v)) return false; j.o.emplace_back(k, v); ws();
        if (p < e && *p == ',') { p++; continue; }
        if (p < e && *p == '}') { p++; return true; }
        return fail("expected ',' or '}'");
      }
    }
    if (*p == '[') {
      p++; j = Json::Array(); ws();
      if (p < e && *p == ']') { p++; return true; }
      for (;;) {
        Json v; if (!val(v)) return false; j.a.push_back(v); ws();
        if (p < e && *p == ',') { p++; continue; }
        if (p < e && *p == ']') { p++; return true; }
        return fail("expected ',' or ']'");
      }
    }
    if (*p == '"') { j.type = Json::kString; return str(j.s); }
    if (!strncmp(p, "true", 4)) { p += 4; j = Json::Bool(true); return true; }
    if (!strncmp(p, "false", 5)) { p += 5; j = Json::Bool(false); return true; }
    if (!strncmp(p, "null", 4)) { p += 4; j = Json(); return true; }
    const char* s = p; bool dbl = false;
    if (p < e && (*p == '-' || *p == '+')) p++;
    while (p < e && ((*p >= '0' && *p <= '9') || *p == '.' || *p == 'e' || *p == 'E' || *p == '-' || *p == '+')) { if (*p == '.' || *p == 'e' || *p == 'E') dbl = true; p++; }
    if (p == s) return fail("unexpected character");
    std::string n(s, p);
    if (dbl) j = Json::Double(strtod(n.c_str(), nullptr)); else j = Json::Int(strtoll(n.c_str(), nullptr, 10));
    return true;
  }
};
}

bool Json::parse(const std::string& text, Json& out, std::string* err) {
  Parser ps{text.data(), text.data() + text.size(), {}};
  bool ok = ps.val(out);
  if (ok) { ps.ws(); if (ps.p != ps.e) { ok = false; ps.err = "trailing data"; } }
  if (!ok && err) *err = ps.err;
  return ok;
}

bool read_file(const std::string& path, std::string& out) {
  FILE* f = fopen(path.c_str(), "rb");
  if (!f) return false;
  char buf[65536]; size_t n; out.clear();
  while ((n = fread(buf, 1, sizeof buf, f)) > 0) out.append(buf, n);
  fclose(f);
  return true;
}

bool write_file(const std::string& path, const std::string& data) {
  std::string tmp = path + ".tmp";
  FILE* f = fopen(tmp.c_str(), "wb");
  if (!f) return false;
  bool ok = fwrite(data.data(), 1, data.size(), f) == data.size();
  ok = fclose(f) == 0 && ok;
  if (ok) ok = rename(tmp.c_str(), path.c_str()) == 0;
  return ok;
}

// ---------------------------------------------------------------------------------------------------------------
// Plans
// ---------------------------------------------------------------------------------------------------------------

static const char* const kFaultNames[kFaultKindCount] = {
  "arena", "malloc", "realloc", "mmap", "munmap", "memfd", "ftruncate", "shm_open", "mprotect", "eh_throw"
};
const char* fault_kind_name(uint8_t k) { return k < kFaultKindCount ? kFaultNames[k] : "?"; }

Json Plan::to_json(const char* (*op_name)(uint16_t)) const {
  Json j = Json::Object();
  j.set("property", Json::Str(prop));
  j.set("scenario", Json::Str(scenario));
  j.set("seed", Json::Int(int64_t(seed)));
  Json c = Json::Object();
  for (auto& kv : cfg) c.set(kv.first, Json::Int(kv.second));
  j.set("cfg", c);
  Json os = Json::Array();
  for (auto& op : ops) {
    Json o = Json::Object();
    o.set("k", Json::Int(op.kind));
    if (op_name) o.set("n", Json::Str(op_name(op.kind)));
    if (op.thread) o.set("t", Json::Int(op.thread));
    Json a = Json::Array();
    int last = 3; while (last >= 0 && op.a[last] == 0) last--;
    for (int i = 0; i <= last; i++) a.push(Json::Int(op.a[i]));
    o.set("a", a);
    if (!op.s.empty()) o.set("s", Json::Str(op.s));
    if (!op.faults.empty()) {
      Json fs = Json::Array();
      for (auto& f : op.faults) { Json fj = Json::Array(); fj.push(Json::Str(fault_kind_name(f.kind))); fj.push(Json::Int(f.ordinal)); if (f.arg) fj.push(Json::Int(f.arg)); fs.push(fj); }
      o.set("f", fs);
    }
    os.push(o);
  }
  j.set("ops", os);
  if (!sched.empty()) { Json s = Json::Array(); for (auto c2 : sched) s.push(Json::Int(c2)); j.set("sched", s); }
  return j;
}

bool Plan::from_json(const Json& j, Plan& out) {
  if (j.type != Json::kObject) return false;
  out = Plan();
  out.prop = j.get_str("property");
  out.scenario = j.get_str("scenario");
  out.seed = uint64_t(j.get_int("seed"));
  if (const Json* c = j.get("cfg")) for (auto& kv : c->o) out.cfg.emplace_back(kv.first, kv.second.i);
  if (const Json* os = j.get("ops")) {
    for (auto& o : os->a) {
      Op op;
      op.kind = uint16_t(o.get_int("k"));
      op.thread = uint16_t(o.get_int("t"));
      if (const Json* a = o.get("a")) for (size_t i = 0; i < a->a.size() && i < 4; i++) op.a[i] = a->a[i].i;
      op.s = o.get_str("s");
      if (const Json* fs = o.get("f")) {
        for (auto& fj : fs->a) {
          if (fj.a.size() < 2) return false;
          Fault f{0, 0, 0};
          bool found = false;
          for (uint8_t k = 0; k < kFaultKindCount; k++) if (fj.a[0].s == kFaultNames[k]) { f.kind = k; found = true; }
          if (!found) return false;
          f.ordinal = uint32_t(fj.a[1].i);
          if (fj.a.size() > 2) f.arg = int32_t(fj.a[2].i);
          op.faults.push_back(f);
        }
      }
      out.ops.push_back(op);
    }
  }
  if (const Json* s = j.get("sched")) for (auto& c2 : s->a) out.sched.push_back(uint16_t(c2.i));
  return true;
}

// ---------------------------------------------------------------------------------------------------------------
// Run context
// ---------------------------------------------------------------------------------------------------------------

Globals g;

static thread_local struct OpState {
  std::vector<Fault> faults;
  uint32_t counts[kFaultKindCount];
  size_t index;
  bool active;
} t_op;

bool verbose() { return g.verbose; }

void hard_exit(int code) {
  fflush(stdout); fflush(stderr);
  __real_syscall(SYS_exit_group, long(code));
  for (;;) {}
}

void logf(const char* fmt, ...) {
  char buf[1024];
  va_list ap; va_start(ap, fmt);
  int n = vsnprintf(buf, sizeof buf, fmt, ap);
  va_end(ap);
  if (n < 0) n = 0;
  if (size_t(n) >= sizeof buf) n = int(sizeof buf) - 1;
  g.log_hash = hash_bytes(buf, size_t(n), g.log_hash ^ 0x9E3779B97F4A7C15ull);
  g.log_lines++;
  if (g.verbose) { fwrite(buf, 1, size_t(n), stderr); fputc('\n', stderr); }
  // keep a short tail for violation reports
  g.tail[g.tail_pos % Globals::kTail].assign(buf, size_t(n));
  g.tail_pos++;
}

void count(const char* name, uint64_t n) { g.counters[name] += n; }
void mark_nontrivial() { g.nontrivial = true; }
void add_steps(uint64_t n) { g.steps += n; }
void breadcrumb(const char* kv) { char b[64]; snprintf(b, sizeof b, "B %llu ", (unsigned long long)g.run_index); emit_result_line(std::string(b) + kv + "\n"); }
void add_subruns(uint64_t n, uint64_t distinct) { count("subruns.total", n); count("subruns.distinct_nontrivial", distinct); }

void emit_result_line(const std::string& line);
static void write_all(int fd, const std::string& s) {
  const char* p = s.data(); size_t n = s.size();
  while (n) { ssize_t w = ::write(fd, p, n); if (w < 0) { if (errno == EINTR) continue; break; } p += w; n -= size_t(w); }
}

void emit_result_line(const std::string& line) { if (g.result_fd >= 0) write_all(g.result_fd, line); }

static std::string escape_detail(const std::string& s) {
  std::string o;
  for (char c : s) { if (c == '\n') o += "\\n"; else if (c == '\t') o += ' '; else o += c; }
  return o;
}

void dump_counters() {
  std::string out;
  for (auto& kv : g.counters) { char b[256]; snprintf(b, sizeof b, "C %s %llu\n", kv.first.c_str(), (unsigned long long)kv.second); out += b; }
  emit_result_line(out);
  g.counters.clear();
}

void fail(const char* cls, const char* fmt, ...) {
  tsan_ignore_begin();
  char buf[2048];
  va_list ap; va_start(ap, fmt);
  vsnprintf(buf, sizeof buf, fmt, ap);
  va_end(ap);
  std::string detail = buf;
  detail += "\n  at op #" + std::to_string(t_op.index) + "; last events:";
  size_t from = g.tail_pos > Globals::kTail ? g.tail_pos - Globals::kTail : 0;
  for (size_t i = from; i < g.tail_pos; i++) detail += "\n    " + g.tail[i % Globals::kTail];
  if (g.verbose) fprintf(stderr, "VIOLATION-CLASS %s\n%s\n", cls, detail.c_str());
  char head[256];
  snprintf(head, sizeof head, "V %llu %016llx ", (unsigned long long)g.run_index, (unsigned long long)g.log_hash);
  emit_result_line(std::string(head) + cls + "\t" + escape_detail(detail) + "\n");
  dump_counters();
  hard_exit(3);
}

// ---------------------------------------------------------------------------------------------------------------
// Faults
// ---------------------------------------------------------------------------------------------------------------

void begin_op(const Op& op, size_t index) {
  t_op.faults = op.faults;
  memset(t_op.counts, 0, sizeof t_op.counts);
  t_op.index = index;
  t_op.active = true;
}

void end_op() { t_op.faults.clear(); t_op.active = false; }
size_t current_op_index() { return t_op.index; }

bool fault_fires(uint8_t kind, int32_t* arg_out) {
  if (!g.in_run) return false;
  uint32_t ord = t_op.counts[kind]++;
  uint64_t run_ord = g.run_counts[kind]++;
  bool fire = false;
  int32_t arg = 0;
  if (t_op.active) {
    for (auto& f : t_op.faults) if (f.kind == kind && f.ordinal == ord) { fire = true; arg = f.arg; break; }
  }
  if (!fire && g.fail_after[kind] >= 0 && int64_t(run_ord) >= g.fail_after[kind]) fire = true;
  if (!fire && g.prob_den[kind]) fire = g.fault_rng.below(g.prob_den[kind]) < g.prob_num[kind];
  if (fire) {
    g.fired[kind]++;
    if (arg_out) *arg_out = arg;
    logf("fault %s op=%zu ord=%u", fault_kind_name(kind), t_op.index, ord);
    char name[64]; snprintf(name, sizeof name, "fault.fired.%s", fault_kind_name(kind));
    count(name);
    if (g.fault_stacks.size() < 64) {
      void* pcs[24];
      int n = backtrace(pcs, 24);
      g.fault_stacks.emplace_back(pcs, pcs + (n > 0 ? n : 0));
    }
    else g.fault_stacks_overflow = true;
#if defined(SIM_FLAVOUR_ASAN) || defined(SIM_FLAVOUR_DBG) || defined(SIM_FLAVOUR_TSAN)
    if (g.verbose) __sanitizer_print_stack_trace();
#endif
  }
  return fire;
}

const std::vector<std::vector<void*>>& fired_fault_stacks() { return g.fault_stacks; }
bool fired_fault_stacks_overflowed() { return g.fault_stacks_overflow; }

bool stack_has_function(const std::vector<void*>& pcs, const char* needle) {
#if defined(SIM_FLAVOUR_ASAN) || defined(SIM_FLAVOUR_DBG) || defined(SIM_FLAVOUR_TSAN)
  char buf[4096];
  for (void* pc : pcs) {
    memset(buf, 0, sizeof buf);
    // pc is a return address: symbolise the call instruction itself
    __sanitizer_symbolize_pc(static_cast<char*>(pc) - 1, "%f", buf, sizeof buf - 2);
    // the buffer holds one NUL separated entry per inlined frame, terminated by an empty string
    for (const char* p = buf; *p; p += strlen(p) + 1) if (strstr(p, needle)) return true;
  }
#else
  (void)pcs; (void)needle;
#endif
  return false;
}

uint32_t op_request_count(uint8_t kind) { return t_op.counts[kind]; }
uint64_t run_request_count(uint8_t kind) { return g.run_counts[kind]; }
uint64_t run_fault_fired_count(uint8_t kind) { return g.fired[kind]; }
uint64_t run_faults_fired_total() { uint64_t n = 0; for (auto v : g.fired) n += v; return n; }
void set_fault_probability(uint8_t kind, uint32_t num, uint32_t den) { g.prob_num[kind] = num; g.prob_den[kind] = den; }
void set_fail_after(uint8_t kind, int64_t k) { g.fail_after[kind] = k; }

void begin_run(const Plan& plan) {
  g.log_hash = mix64(plan.seed);
  g.log_lines = 0;
  g.tail_pos = 0;
  g.nontrivial = false;
  g.steps = 0;
  memset(g.run_counts, 0, sizeof g.run_counts);
  memset(g.fired, 0, sizeof g.fired);
  memset(g.prob_num, 0, sizeof g.prob_num);
  memset(g.prob_den, 0, sizeof g.prob_den);
  for (auto& v : g.fail_after) v = -1;
  g.fault_rng = stream(plan.seed, "fault");
  g.fault_stacks.clear();
  g.fault_stacks_overflow = false;
  g.knob_arena_block = 0;
  g.knob_code_buffer = 0;
  t_op.faults.clear(); t_op.active = false; t_op.index = 0;
  memset(t_op.counts, 0, sizeof t_op.counts);
  heap::reset_run_generation();
  g.in_run = true;
}

RunResult end_run() {
  g.in_run = false;
  heap::arm(false);
  RunResult r{g.log_hash, g.nontrivial, g.steps};
  return r;
}

// ---------------------------------------------------------------------------------------------------------------
// Knobs + hooks H1/H3/H4 (extern "C", called from asmjit built with -DASMJIT_VERIF)
// ---------------------------------------------------------------------------------------------------------------

void set_knob_arena_block(size_t v) { g.knob_arena_block = v; }
void set_knob_code_buffer(size_t v) { g.knob_code_buffer = v; }

} // namespace sim

extern "C" int asmjit_verif_arena_request(void* arena, size_t size) {
  (void)arena; (void)size;
  if (!sim::g.in_run) return 0;
  sim::HarnessScope hs;
  sim::sched_point(sim::kSchedArena);
  return sim::fault_fires(sim::kFaultArena) ? 1 : 0;
}

extern "C" size_t asmjit_verif_tune(int knob, size_t value) {
  if (!sim::g.in_run) return value;
  if (knob == 0 && sim::g.knob_arena_block) return sim::g.knob_arena_block;
  if (knob == 1 && sim::g.knob_code_buffer) return sim::g.knob_code_buffer;
  return value;
}
