#ifndef SIM_INTERNAL_H
#define SIM_INTERNAL_H

#include "sim/sim.h"
#include <map>
#include <string>
#include <vector>

namespace sim {

struct Globals {
  static constexpr size_t kTail = 24;
  bool verbose = false;
  bool in_run = false;
  int result_fd = -1;
  uint64_t run_index = 0;
  uint64_t log_hash = 0;
  uint64_t log_lines = 0;
  std::string tail[kTail];
  size_t tail_pos = 0;
  bool nontrivial = false;
  uint64_t steps = 0;
  std::map<std::string, uint64_t> counters;
  uint64_t run_counts[kFaultKindCount] = {};
  uint64_t fired[kFaultKindCount] = {};
  uint32_t prob_num[kFaultKindCount] = {};
  uint32_t prob_den[kFaultKindCount] = {};
  int64_t fail_after[kFaultKindCount] = {};
  Rng fault_rng;
  std::vector<std::vector<void*>> fault_stacks;
  bool fault_stacks_overflow = false;
  size_t knob_arena_block = 0;
  size_t knob_code_buffer = 0;
};
extern Globals g;

void emit_result_line(const std::string& line);
void dump_counters();

// Scheduler seam (sched.cpp). A scheduling point is a place where the seeded scheduler may switch simulated threads.
enum SchedPointKind { kSchedArena, kSchedHeap, kSchedVM, kSchedLock, kSchedUnlock, kSchedShared, kSchedOp };
void sched_point(int kind);

} // namespace sim

#endif
